#!/bin/bash
# development aid: run every check with several seeds (no proof stage) and list alarms
cd /verif
for sd in "$@"; do
  for p in C01 C02 C03 C04 C05 C06 C07 C08 C09 C10 C11 C12 C13 C14 C15 C16 C17 C18 C19 C20; do
    out=$(VERIF_SEED=$sd ./check $p --no-proofs 2>&1 | tail -3)
    if echo "$out" | grep -q VIOLATION; then echo "== seed $sd $p"; echo "$out"; cp replays/$p-$sd.json /tmp/scratch/sweep-$p-$sd.json 2>/dev/null; fi
  done
  echo "seed $sd done"
done
