#!/bin/bash
# Build the framework from files on disk only (offline).
set -e
cd "$(dirname "$0")"
export CARGO_NET_OFFLINE=true
mkdir -p .cache evidence replays
( cd coq && coq_makefile -f _CoqProject -o Makefile >/dev/null && timeout 3000 make -j16 )
( cd harness && RUSTFLAGS="--cfg momtrop_verif" CARGO_TARGET_DIR=/verif/.cache/harness-target timeout 1800 cargo build --offline --quiet )
echo setup-done
