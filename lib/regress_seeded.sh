#!/bin/bash
# usage: lib/regress_seeded.sh [seed]  -- applies every seeded change under seeded/ to /repo in turn, runs the check of its own
# property (quick tier, --no-proofs: the proofs do not depend on /repo), undoes it, and writes one line per change to
# seeded/RESULTS.txt: CAUGHT-WITH-INPUT / CAUGHT-NO-INPUT / MISSED.  /repo must be clean; nothing is ever committed there.
set -u
cd /repo || exit 2
if ! git diff --quiet; then echo "/repo has uncommitted changes"; exit 2; fi
cd /verif
seed=${1:-20261001}
out=seeded/RESULTS.txt
echo "# seed $seed, $(date -u +%Y-%m-%dT%H:%MZ), /repo at $(git -C /repo rev-parse --short HEAD)" > $out
for d in $(ls seeded | grep -E '^C[0-9]+(-[0-9]+)?$' | sort); do
  p=${d%%-*}
  git -C /repo apply /verif/seeded/$d/patch.diff 2>/dev/null || { echo "$d patch-does-not-apply" >> $out; continue; }
  res=$(VERIF_SEED=$seed ./check $p --no-proofs 2>&1 | grep -E "^(OK|VIOLATION)" | head -1)
  git -C /repo checkout -- .
  case "$res" in
    VIOLATION*no-failing-input-found) echo "$d CAUGHT-NO-INPUT" >> $out ;;
    VIOLATION*) echo "$d CAUGHT-WITH-INPUT" >> $out ;;
    *) echo "$d MISSED" >> $out ;;
  esac
done
git -C /repo status --short
grep -c CAUGHT-WITH-INPUT $out; grep -v CAUGHT-WITH-INPUT $out
