#!/usr/bin/env python3
"""Prompts for sub-agents that produce HARMLESS rewrites of momtrop (the property still holds): used to look for false alarms of
the checks.  Each prompt names one source area and a private scratch worktree; nothing from /verif is given.
usage: gen_refactor_prompts.py  -> /tmp/mut/out/prompt_R<k>.txt"""
import os
AREAS = [
 ("R01", "src/gamma.rs (inverse_gamma_lr_impl and the inverse_gamma_lr wrapper)"),
 ("R02", "src/preprocessing.rs: TropicalSubgraphTable::sample_edge and get_num_variables"),
 ("R03", "src/preprocessing.rs: generate_from_tropical (the subgraph table, the J recursion, cached_factor)"),
 ("R04", "src/preprocessing.rs: TropicalGraph (from_graph, get_connected_components, get_loop_number, is_mass_momentum_spanning)"),
 ("R05", "src/sampling.rs: permatuhedral_sampling (the edge removal loop, u_trop / v_trop bookkeeping, the rescaling)"),
 ("R06", "src/sampling.rs: compute_l_matrix, compute_u_vectors, compute_v_polynomial"),
 ("R07", "src/sampling.rs: sample_q_vectors, box_muller, compute_loop_momenta, compute_only_shift"),
 ("R08", "src/matrix.rs: decompose_for_tropical (Cholesky, nilpotent series, inverse, determinant, stability test) and l21_norm"),
 ("R09", "src/vector.rs (Vector operators, dot, squared, constructors)"),
 ("R10", "src/lib.rs (build_sampler, generate_sample_from_rng, generate_sample_from_x_space_point, getters) and src/mimic_rng.rs"),
]
PROMPT = '''You are helping to test verification machinery for the Rust crate momtrop (tropical Monte Carlo sampling of Feynman loop integrals in momentum space). Work ONLY inside the git worktree {wt} (a private scratch copy of the repository; do not touch /repo, and do not read or use anything under /verif).

Your task: make ONE realistic, BEHAVIOUR-PRESERVING rewrite in this area of the crate: {area}.

The rewrite must be the kind of change a maintainer makes all the time and that must NOT be reported as a defect by any checker of the crate's semantic properties: restructure loops as iterator chains (or the reverse), extract or inline helper functions, rename locals, reorder independent statements, replace index loops by zip/enumerate, hoist loop-invariant sub-expressions, replace a clone by a borrow, change a data structure for an equivalent one, split or merge `if` branches without changing the condition, and the like. It should be substantial (10-40 changed lines), not cosmetic. Rules:
 - every public function must return exactly the same results as before for every input (same values; if you change floating-point expressions at all, only in ways that are mathematically identical AND you believe round identically, e.g. commuting a multiplication; say so in your notes if you did);
 - the same numbers must be read from the x-space point / random generator in the same order; the same errors and panics for the same inputs; the same serialised form;
 - no new dependencies, no change of public signatures, tests untouched; no unsafe, no statics, no interior mutability.
Check yourself: `cd {wt} && CARGO_TARGET_DIR={wt}/target cargo test --offline` must still pass (35 tests; the integration test takes ~40 s and asserts a bit-exact number), and write a small test {wt}/tests/same_{idl}.rs that compares, bit for bit, a few hundred outputs of the public API on 2-3 different graphs (including at least one two-loop graph with masses and shifts, one graph with D=4) against values you recorded from the UNCHANGED source (record them first, e.g. print them from the unchanged code and paste them into the test as u64 bit patterns), and passes with your rewrite.

When done, leave in /tmp/mut/out/{id}/ :
  - patch.diff : output of `git -C {wt} diff -- src`
  - same_{idl}.rs : your comparison test
  - notes.md : what you rewrote, why it preserves behaviour, and the commands you ran with their outcomes.
Finally reply with a 5-line summary. Time-box yourself to about 25 minutes.'''
os.makedirs('/tmp/mut/out', exist_ok=True)
for rid, area in AREAS:
    open('/tmp/mut/out/prompt_%s.txt' % rid, 'w').write(PROMPT.format(wt='/tmp/mut/' + rid, area=area, id=rid, idl=rid.lower()))
    print(rid)
