# Shared machinery of the momtrop checks (see DESIGN.md section 2).
#   - SplitMix64 PRNG (every random choice of a check derives from one state)
#   - float <-> bits <-> Coq literal
#   - building and calling the Rust harness (implementation side)
#   - writing cases_*.v, running coqc shards, parsing `Eval vm_compute` output
#   - proof obligations: make, Print Assumptions allow-list, forbidden words
#   - evidence / replay / known-findings plumbing
import json, os, struct, subprocess, sys, time, hashlib, re, math, shutil, tempfile
from concurrent.futures import ThreadPoolExecutor

VERIF = os.path.dirname(os.path.dirname(os.path.abspath(__file__)))
REPO = os.environ.get("MT_REPO", "/repo")
COQ = os.path.join(VERIF, "coq")
CACHE = os.path.join(VERIF, ".cache")
EVID = os.path.join(VERIF, "evidence")
REPLAYS = os.path.join(VERIF, "replays")
HARNESS = os.path.join(VERIF, "harness")
NCPU = min(16, os.cpu_count() or 4)
MASK = (1 << 64) - 1

ENV = dict(os.environ)
ENV.update({"CARGO_NET_OFFLINE": "true", "RUSTFLAGS": "--cfg momtrop_verif",
            "CARGO_TARGET_DIR": os.path.join(CACHE, "harness-target")})


class Rng:
    """SplitMix64."""
    def __init__(self, seed):
        self.s = seed & MASK

    def u64(self):
        self.s = (self.s + 0x9E3779B97F4A7C15) & MASK
        z = self.s
        z = ((z ^ (z >> 30)) * 0xBF58476D1CE4E5B9) & MASK
        z = ((z ^ (z >> 27)) * 0x94D049BB133111EB) & MASK
        return z ^ (z >> 31)

    def below(self, n):
        return self.u64() % n

    def range(self, lo, hi):          # inclusive
        return lo + self.below(hi - lo + 1)

    def unit(self):                   # [0,1) with 53 bits
        return (self.u64() >> 11) * (1.0 / (1 << 53))

    def open_unit(self):              # (0,1)
        while True:
            x = self.unit()
            if x > 0.0:
                return x

    def choice(self, xs):
        return xs[self.below(len(xs))]

    def chance(self, p):
        return self.unit() < p

    def shuffle(self, xs):
        for i in range(len(xs) - 1, 0, -1):
            j = self.below(i + 1)
            xs[i], xs[j] = xs[j], xs[i]

    def fork(self):
        return Rng(self.u64())


# ---------------------------------------------------------------- floats
def f2b(x):
    return struct.unpack("<Q", struct.pack("<d", x))[0]


def b2f(b):
    return struct.unpack("<d", struct.pack("<Q", b & MASK))[0]


NAN_BITS = 2047 * 2**52 + 2**51


def canon_bits(b):
    """All NaNs are one NaN (Coq has a single NaN)."""
    if (b >> 52) & 0x7FF == 0x7FF and (b & ((1 << 52) - 1)) != 0:
        return NAN_BITS
    return b


def coq_float(x):
    """Exact Coq literal (in float_scope) of a python float."""
    if isinstance(x, int):
        x = b2f(x)
    if x != x:
        return "nan"
    if x == math.inf:
        return "infinity"
    if x == -math.inf:
        return "neg_infinity"
    if x == 0.0:
        return "(-0)%float" if math.copysign(1.0, x) < 0 else "0%float"
    h = abs(x).hex()
    return ("(-%s)%%float" if x < 0 else "%s%%float") % h


def coq_list(items):
    return "[" + "; ".join(items) + "]"


def coq_flist(xs):
    return coq_list([coq_float(x) for x in xs])


def coq_Z(n):
    return "(%d)%%Z" % n if n < 0 else "%d%%Z" % n


def coq_bool(b):
    return "true" if b else "false"


def ulp_neighbors(x):
    return [math.nextafter(x, -math.inf), x, math.nextafter(x, math.inf)]


def rel_close(a, b, rel, absol=0.0):
    if a != a or b != b:
        return (a != a) and (b != b)
    if a == b:
        return True
    if math.isinf(a) or math.isinf(b):
        return False
    return abs(a - b) <= max(rel * max(abs(a), abs(b)), absol)


# ---------------------------------------------------------------- shell
def run(cmd, timeout=600, cwd=None, env=None, inp=None):
    t0 = time.time()
    try:
        p = subprocess.run(cmd, cwd=cwd, env=env or ENV, input=inp, capture_output=True,
                           timeout=timeout, text=True)
        return p.returncode, p.stdout, p.stderr, time.time() - t0
    except subprocess.TimeoutExpired as e:
        return 124, (e.stdout or b"").decode() if isinstance(e.stdout, bytes) else (e.stdout or ""), "TIMEOUT", time.time() - t0


class CheckError(Exception):
    pass


# ---------------------------------------------------------------- harness (implementation side)
_built = {}


def build_harness(profile="debug"):
    """Rebuild the harness (and therefore /repo's current working tree) ."""
    if profile in _built:
        return _built[profile]
    os.makedirs(CACHE, exist_ok=True)
    cmd = ["cargo", "build", "--offline", "--quiet"]
    if profile == "release":
        cmd.append("--release")
    rc, out, err, dt = run(cmd, timeout=900, cwd=HARNESS)
    exe = os.path.join(CACHE, "harness-target", profile, "mtharness")
    if rc != 0 or not os.path.exists(exe):
        raise CheckError("harness build failed (does /repo still compile?):\n" + err[-3000:])
    _built[profile] = exe
    return exe


def harness(cmd, payload, profile="debug", timeout=300, mem_kb=4 * 1024 * 1024):
    """Run one harness command in a child process under timeout + ulimit -v."""
    exe = build_harness(profile)
    sh = "ulimit -v %d; exec %s %s" % (mem_kb, exe, cmd)
    try:
        p = subprocess.run(["bash", "-c", sh], input=json.dumps(payload), capture_output=True,
                           text=True, timeout=timeout, env=ENV)
    except subprocess.TimeoutExpired:
        raise CheckError("harness %s timed out after %ds" % (cmd, timeout))
    if p.returncode != 0:
        raise CheckError("harness %s exited %d: %s" % (cmd, p.returncode, p.stderr[-2000:]))
    k = p.stdout.rfind("@@JSON@@")
    if k < 0:
        raise CheckError("harness %s produced no result: %s" % (cmd, p.stdout[-500:]))
    return json.loads(p.stdout[k + 8:])


# ---------------------------------------------------------------- model side (Coq)
def coq_make(targets=None, timeout=3000):
    """make in /verif/coq (no-op when up to date)."""
    if not os.path.exists(os.path.join(COQ, "Makefile")):
        rc, out, err, _ = run(["coq_makefile", "-f", "_CoqProject", "-o", "Makefile"], cwd=COQ)
        if rc != 0:
            raise CheckError("coq_makefile failed: " + err)
    cmd = ["make", "-j%d" % NCPU] + (targets or [])
    rc, out, err, dt = run(cmd, timeout=timeout, cwd=COQ)
    return rc, out + err, dt


HEADER = """From Coq Require Import ZArith List Floats.
Import ListNotations.
%s
Set Printing Width 1000000.
Set Printing Depth 1000000.
Open Scope Z_scope.
"""


def run_model(tag, requires, prelude, case_exprs, batch=25, shard_timeout=900):
    """Evaluate `case_exprs` (Coq terms of type list Z) inside Coq by vm_compute.
    Returns a list (same order) of python lists of ints.  Shards over NCPU coqc."""
    d = os.path.join(CACHE, "cases", tag)
    shutil.rmtree(d, ignore_errors=True)
    os.makedirs(d)
    n = len(case_exprs)
    if n == 0:
        return []
    nshards = max(1, min(NCPU, (n + batch - 1) // batch))
    shards = [[] for _ in range(nshards)]
    for i, e in enumerate(case_exprs):
        shards[i % nshards].append((i, e))
    files = []
    for k, sh in enumerate(shards):
        path = os.path.join(d, "cases_%d.v" % k)
        with open(path, "w") as f:
            f.write(HEADER % "\n".join("From MT Require Import %s." % r for r in requires))
            f.write(prelude + "\n")
            for j in range(0, len(sh), batch):
                chunk = sh[j:j + batch]
                f.write("Eval vm_compute in [\n  " + ";\n  ".join(e for _, e in chunk) + "\n].\n")
        files.append((path, sh))

    def one(arg):
        path, sh = arg
        rc, out, err, dt = run(["coqc", "-noglob", "-w", "-all", "-Q", COQ, "MT", path], timeout=shard_timeout, cwd=d)
        if rc != 0:
            raise CheckError("coqc failed on %s (rc=%d):\n%s" % (path, rc, (err or out)[-3000:]))
        vals = parse_eval_output(out)
        if len(vals) != len(sh):
            raise CheckError("coqc output of %s has %d results, expected %d" % (path, len(vals), len(sh)))
        return [(i, v) for (i, _), v in zip(sh, vals)]

    res = [None] * n
    with ThreadPoolExecutor(max_workers=NCPU) as ex:
        for part in ex.map(one, files):
            for i, v in part:
                res[i] = v
    return res


_blk = re.compile(r"^\s*=\s*(\[.*?\])\s*:\s*list \(list Z\)", re.S | re.M)


def parse_eval_output(out):
    vals = []
    for m in _blk.finditer(out):
        txt = m.group(1).replace(";", ",")
        vals.extend(json.loads(txt))
    return vals


# ---------------------------------------------------------------- proof obligations
ALLOWED_AXIOM_PREFIXES = (
    # primitive floats / 63-bit integers (declared by Coq's standard library)
    "PrimFloat.", "FloatAxioms.", "Uint63.", "PrimInt63.", "Sint63.", "FloatOps.", "SpecFloat.",
    "CarryType.", "Uint63Axioms.",
    # the real numbers of Coq.Reals and what they rely on
    "ClassicalDedekindReals.", "FunctionalExtensionality.functional_extensionality_dep",
    "Classical_Prop.classic", "Raxioms.", "Rdefinitions.",
    "ClassicalEpsilon.constructive_indefinite_description",
    "PropExtensionality.", "ProofIrrelevance.", "Eqdep.Eq_rect_eq.eq_rect_eq", "JMeq.JMeq_eq",
)
# bare names as Print Assumptions prints them when the module is imported
ALLOWED_AXIOM_NAMES = {
    "sig_forall_dec", "sig_not_dec", "functional_extensionality_dep", "classic",
    "constructive_indefinite_description", "propositional_extensionality", "proof_irrelevance",
    "eq_rect_eq", "JMeq_eq",
    # primitive float/int operations and their specifications
    "float", "int", "float_class", "float_comparison",
    "add", "sub", "mul", "div", "sqrt", "abs", "opp", "eqb", "ltb", "leb", "compare", "classify",
    "of_uint63", "normfr_mantissa", "frshiftexp", "ldshiftexp", "next_up", "next_down",
    "Prim2SF_valid", "SF2Prim_Prim2SF", "Prim2SF_SF2Prim", "opp_spec", "abs_spec", "eqb_spec",
    "ltb_spec", "leb_spec", "compare_spec", "classify_spec", "mul_spec", "add_spec", "sub_spec",
    "div_spec", "sqrt_spec", "of_uint63_spec", "normfr_mantissa_spec", "frshiftexp_spec",
    "ldshiftexp_spec", "next_up_spec", "next_down_spec", "Equality.eqb_spec", "Leibniz.eqb_spec",
}
FORBIDDEN = re.compile(r"\b(Admitted|admit|Axiom|Axioms|Parameter|Parameters|Conjecture|Conjectures|Abort)\b|Unset\s+Guard|Guard Checking|bypass_check|type-in-type|impredicative-set|Admit Obligations|Unset Positivity|Unset Universe")


def strip_coq_comments(s):
    out, depth, i = [], 0, 0
    while i < len(s):
        if s.startswith("(*", i):
            depth += 1
            i += 2
        elif s.startswith("*)", i) and depth > 0:
            depth -= 1
            i += 2
        else:
            if depth == 0:
                out.append(s[i])
            i += 1
    return "".join(out)


def scan_forbidden():
    bad = []
    for root, _, files in os.walk(COQ):
        for fn in files:
            if fn.endswith(".v"):
                p = os.path.join(root, fn)
                src = strip_coq_comments(open(p).read())
                for ln, line in enumerate(src.split("\n"), 1):
                    if FORBIDDEN.search(line):
                        bad.append("%s:%d: %s" % (os.path.relpath(p, VERIF), ln, line.strip()[:120]))
    # top-level Variable/Hypothesis outside a section would declare an axiom: coqc warns
    return bad


def proof_obligations(pid, thorough=False):
    """Build the development, recompile Properties/<pid>.v, read Print Assumptions.
    Returns dict(ok, theorems, axioms, problems, checker_cmd, wall)."""
    t0 = time.time()
    problems = []
    rc, log, dt = coq_make()
    if rc != 0:
        problems.append("make failed: " + log[-2000:])
    bad = scan_forbidden()
    if bad:
        problems.append("forbidden declarations: " + "; ".join(bad[:10]))
    pfile = os.path.join(COQ, "Properties", pid + ".v")
    theorems, axioms, checks = [], {}, 0
    cmd = "cd /verif/coq && make -j16 && coqc -noglob -Q . MT -o /verif/.cache/pa/%s.vo Properties/%s.v" % (pid, pid)
    if not os.path.exists(pfile):
        problems.append("missing " + pfile)
    elif rc == 0:
        os.makedirs(os.path.join(CACHE, "pa"), exist_ok=True)
        src = strip_coq_comments(open(pfile).read())
        theorems = re.findall(r"^\s*(?:Theorem|Corollary)\s+([A-Za-z0-9_']+)", src, re.M)
        checks = len(re.findall(r"^\s*Check\s+[A-Za-z0-9_']+\s*:", src, re.M))
        npa = len(re.findall(r"Print Assumptions", src))
        rc2, out, err, _ = run(["coqc", "-noglob", "-Q", COQ, "MT", "-o",
                                os.path.join(CACHE, "pa", pid + ".vo"), pfile], timeout=1200, cwd=COQ)
        if rc2 != 0:
            problems.append("coqc Properties/%s.v failed: %s" % (pid, (err or out)[-2000:]))
        else:
            cur = None
            blocks = re.split(r"(?=^Closed under the global context|^Axioms:)", out, flags=re.M)
            nblocks = 0
            for b in blocks:
                if b.startswith("Closed under the global context"):
                    nblocks += 1
                elif b.startswith("Axioms:"):
                    nblocks += 1
                    for m in re.finditer(r"^([A-Za-z_][A-Za-z0-9_.']*)\s*(?::|$)", b[len("Axioms:"):], re.M):
                        axioms[m.group(1)] = 1
            if nblocks < npa or npa < len(theorems):
                problems.append("Print Assumptions blocks %d, statements %d, theorems %d" % (nblocks, npa, len(theorems)))
            for a in axioms:
                if not (a in ALLOWED_AXIOM_NAMES or a.startswith(ALLOWED_AXIOM_PREFIXES)):
                    problems.append("axiom outside the allow-list: " + a)
        if thorough and not problems:
            rc3, out3, err3, _ = run(["coqchk", "-silent", "-o", "-Q", COQ, "MT", "MT.Properties." + pid],
                                     timeout=3000, cwd=COQ)
            if rc3 != 0:
                problems.append("coqchk failed: " + (err3 or out3)[-1500:])
            cmd += " && coqchk -silent -o -Q . MT MT.Properties." + pid
    return dict(ok=not problems, theorems=theorems, axioms=sorted(axioms), problems=problems,
                checker_cmd=cmd, wall=time.time() - t0, pinned=checks,
                sha256=hashlib.sha256(open(pfile, "rb").read()).hexdigest() if os.path.exists(pfile) else None)


# ---------------------------------------------------------------- known findings
def known_findings(pid):
    p = os.path.join(VERIF, "known_findings.json")
    if not os.path.exists(p):
        return []
    return [e for e in json.load(open(p)).get("findings", []) if e.get("property") == pid and e.get("status") == "open"]


# ---------------------------------------------------------------- result of a check
class Report:
    def __init__(self, pid, tier, seed):
        self.pid, self.tier, self.seed = pid, tier, seed
        self.t0 = time.time()
        self.violations = []      # dict(kind, detail, case, failing_input: bool)
        self.known = []
        self.cov = dict(evaluations=0, distinct_nontrivial=0, rule="", samples=[])
        self.assumptions = []
        self._seen = set()

    def count(self, case_key, nontrivial):
        self.cov["evaluations"] += 1
        if nontrivial:
            h = hashlib.sha1(json.dumps(case_key, sort_keys=True).encode()).hexdigest()
            if h not in self._seen:
                self._seen.add(h)
                self.cov["distinct_nontrivial"] += 1

    def sample(self, s, limit=3):
        if len(self.cov["samples"]) < limit:
            self.cov["samples"].append(s)

    def violation(self, kind, detail, case=None, failing_input=False, what=None):
        self.violations.append(dict(kind=kind, detail=detail, case=case, failing_input=failing_input, what=what))

    def finish(self, po):
        """Write evidence, print VIOLATION / KNOWN-FINDING lines, return exit code."""
        os.makedirs(EVID, exist_ok=True)
        cov = self.cov
        cov["obligations"] = max(1, len(po["theorems"])) if po else 1
        cov["discharged"] = len(po["theorems"]) if (po and po["ok"]) else 0
        cov["checker_cmd"] = po["checker_cmd"] if po else ""
        cov["theorems"] = po["theorems"] if po else []
        cov["axioms_reported_by_Print_Assumptions"] = po["axioms"] if po else []
        cov["properties_file_sha256"] = po.get("sha256") if po else None
        cov["trusted_base"] = TRUSTED_BASE + (["axioms (all from the Coq standard library): " + ", ".join(po["axioms"])] if po and po["axioms"] else ["Print Assumptions: closed under the global context for every theorem of this property"])
        if po and not po["ok"]:
            for pr in po["problems"]:
                self.violation("proof-obligation", pr)
        real = [v for v in self.violations]
        ev = dict(property_id=self.pid, tier=self.tier, seed=self.seed, level="proof", coverage=cov,
                  assumptions=self.assumptions, wall_s=round(time.time() - self.t0, 2),
                  violations=len(real), known_findings=self.known)
        code = 0
        for k in self.known:
            print("KNOWN-FINDING: property=%s %s" % (self.pid, k))
        if real:
            os.makedirs(REPLAYS, exist_ok=True)
            with_input = [v for v in real if v["failing_input"]]
            chosen = with_input[0] if with_input else real[0]
            path = os.path.join(REPLAYS, "%s-%d.json" % (self.pid, self.seed))
            json.dump(dict(property=self.pid, seed=self.seed, tier=self.tier, chosen=chosen,
                           all=real[:50]), open(path, "w"), indent=1, default=str)
            tail = "" if with_input else " no-failing-input-found"
            print("VIOLATION property=%s replay=%s%s" % (self.pid, path, tail))
            for v in (with_input + [v for v in real if not v["failing_input"]])[:5]:
                print("  [%s] %s" % (v["kind"], str(v["detail"])[:400]))
            code = 1
        with open(os.path.join(EVID, self.pid + ".json"), "w") as f:
            json.dump(ev, f, indent=1, default=str)
        if code == 0:
            print("OK property=%s tier=%s seed=%d evaluations=%d distinct_nontrivial=%d theorems=%d wall=%.1fs" % (
                self.pid, self.tier, self.seed, cov["evaluations"], cov["distinct_nontrivial"], cov["discharged"], time.time() - self.t0))
        return code


TRUSTED_BASE = [
    "Coq 8.16.1 kernel (coqc); vm_compute (bytecode VM incl. its primitive binary64 floats and 63-bit integers) to run the model; no native_compute; no extraction",
    "hand-written Gallina model under /verif/coq/Model; tied to /repo only by the correspondence check of this run (differential testing through the public API, feature log, serde, cfg(momtrop_verif) hooks)",
    "Rust harness /verif/harness and Python driver /verif/lib (case generation, canonicalisation, comparison)",
    "rustc/LLVM, libm (ln exp cos sin pow) and statrs (gamma, gamma_lr, gamma_ur) are oracles: their answers are recorded from the very functions the implementation calls",
    "theorems over exact fields say nothing about rounding; binary64 evaluation is covered by the correspondence only",
]
