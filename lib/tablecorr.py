# Table-level correspondence shared by C03, C04, C05, C18: the implementation's
# serialised SampleGenerator vs the Coq model's build_sampler at binary64.
from common import *
import graphs as G

PI = math.pi
OPS = dict(ln=1, exp=2, cos=3, sin=4, powf=5, gamma=6, gamma_lr=7, gamma_ur=8)


def oracle_answers(queries, profile="debug"):
    """queries: list of (op, a_float, b_float) -> list of result bits or None (statrs panicked)"""
    qs = [[op, f2b(a), f2b(b)] for op, a, b in queries]
    return harness("oracle", dict(queries=qs), profile=profile)["results"]


def coq_oracle(entries):
    """entries: list of (op, a_bits, b_bits, r_bits)"""
    return coq_list(["mkO %d%%N %d%%Z %d%%Z %s" % (op, canon_bits(a), canon_bits(b), coq_float(b2f(r))) for op, a, b, r in entries])


PRELUDE = "From MT Require Import Model.Scalar Model.F64 Model.Graph Model.Table Model.Render."


def coq_edges(case):
    return coq_list(["(%d%%N, %d%%N, %s, %s)" % (e[0], e[1], coq_bool(e[2]), coq_float(b2f(e[3]))) for e in case["edges"]])


def coq_ext(case):
    return coq_list(["%d%%N" % v for v in case["externals"]])


def py_dod_candidates(case):
    """dod as computed in f64 by summing from -0.0 in edge order, for the independent loop number"""
    edges = [(e[0], e[1]) for e in case["edges"]]
    E = len(edges)
    L = G.loop_number(edges, list(range(E)))
    ws = -0.0
    for e in case["edges"]:
        ws = ws + b2f(e[3])
    return ws - (float(L) * float(case["D"])) / 2.0, L


def table_oracle_entries(case, impl):
    qs = set()
    for e in case["edges"]:
        qs.add((OPS["gamma"], b2f(e[3]), 0.0))
    dod, L = py_dod_candidates(case)
    cands = [(dod, L)]
    if impl.get("ok"):
        cands.append((b2f(impl["dod"]), impl["json"]["table"]["tropical_graph"]["num_loops"]))
    for d, l in cands:
        qs.add((OPS["gamma"], d, 0.0))
        qs.add((OPS["powf"], PI, float(case["D"] * l) / 2.0))
    return sorted(qs, key=lambda q: (q[0], f2b(q[1]), f2b(q[2])))


def run_tables(tag, cases, profile="debug", batch=20):
    """returns (impl_results, model_results(parsed))"""
    impl = harness("table", dict(cases=cases), profile=profile, timeout=900)["results"]
    allq, spans = [], []
    for c, o in zip(cases, impl):
        q = table_oracle_entries(c, o)
        spans.append((len(allq), len(q)))
        allq += q
    ans = oracle_answers(allq, profile)
    exprs = []
    for c, (s, n) in zip(cases, spans):
        ents = [(q[0], f2b(q[1]), f2b(q[2]), a) for q, a in zip(allq[s:s + n], ans[s:s + n]) if a is not None]
        exprs.append("(render_build %s %s %s %d)" % (coq_oracle(ents), coq_edges(c), coq_ext(c), c["D"]))
    raw = run_model(tag, [], PRELUDE, exprs, batch=batch)
    return impl, [parse_model_table(r) for r in raw]


def parse_model_table(r):
    if r[0] == 2:
        return dict(tag="panic", why=r[1])
    if r[0] == 1:
        return dict(tag="err")
    n = r[7]
    ent = [tuple(r[8 + 4 * i: 12 + 4 * i]) for i in range(n)]
    return dict(tag="ok", numvars=r[1], dod=r[2], loops=r[3], nmassive=r[4], factor=r[5], dim=r[6], entries=ent)


def impl_outcome(o):
    if "panic" in o:
        return "panic"
    return "ok" if o["ok"] else "err"


def diff_tables(case, o, m):
    """list of (category, message); categories: outcome, shape, j, factor"""
    d = []
    io = impl_outcome(o)
    if io != m["tag"]:
        d.append(("outcome", "implementation %s, model %s" % (io + (": " + str(o.get("panic") or o.get("err", ""))[:200] if io != "ok" else ""), m["tag"])))
        return d
    if io != "ok":
        return d
    j = o["json"]
    tg = j["table"]["tropical_graph"]
    tab = j["table"]["table"]
    E = len(case["edges"])
    if o["dimension"] != m["numvars"]:
        d.append(("shape", "get_dimension %s model %s" % (o["dimension"], m["numvars"])))
    if canon_bits(o["dod"]) != m["dod"] or canon_bits(f2b(tg["dod"]) if tg["dod"] is not None else NAN_BITS) != m["dod"]:
        d.append(("shape", "dod impl %r model %r" % (b2f(o["dod"]), b2f(m["dod"]))))
    if tg["num_loops"] != m["loops"]:
        d.append(("shape", "num_loops impl %s model %s" % (tg["num_loops"], m["loops"])))
    if tg["num_massive_edges"] != m["nmassive"]:
        d.append(("shape", "num_massive_edges impl %s model %s" % (tg["num_massive_edges"], m["nmassive"])))
    if j["table"]["dimension"] != m["dim"]:
        d.append(("shape", "dimension field impl %s model %s" % (j["table"]["dimension"], m["dim"])))
    if o["num_edges"] != E or o["weights"] != [e[3] for e in case["edges"]]:
        d.append(("shape", "num_edges/edge weights do not agree with the input graph"))
    if len(tab) != len(m["entries"]):
        d.append(("shape", "table length impl %d model %d" % (len(tab), len(m["entries"]))))
        return d
    for gid, (e, me) in enumerate(zip(tab, m["entries"])):
        if e["loop_number"] != me[0] or int(e["mass_momentum_spanning"]) != me[1]:
            d.append(("shape", "subset %d: loop/spanning impl (%s,%s) model (%s,%s)" % (gid, e["loop_number"], e["mass_momentum_spanning"], me[0], bool(me[1]))))
        # floats: the relation is a tolerance (DESIGN.md 2.3); bit-exactness is measured separately
        if not rel_close(b2f(o["dod_bits"][gid]), b2f(me[3]), 1e-12, 1e-12):
            d.append(("shape", "subset %d: generalized_dod impl %r model %r" % (gid, b2f(o["dod_bits"][gid]), b2f(me[3]))))
        if not rel_close(b2f(o["j_bits"][gid]), b2f(me[2]), 1e-11):
            d.append(("j", "subset %d: j_function impl %r model %r" % (gid, b2f(o["j_bits"][gid]), b2f(me[2]))))
    fb = o["factor_bits"] if o["factor_bits"] is not None else NAN_BITS
    if not rel_close(b2f(fb), b2f(m["factor"]), 1e-10):
        d.append(("factor", "cached_factor impl %r model %r" % (b2f(fb), b2f(m["factor"]))))
    return d


def bit_exact(o, m):
    """(equal, total) float fields that agree bit for bit"""
    if impl_outcome(o) != "ok" or m["tag"] != "ok" or len(o["j_bits"]) != len(m["entries"]):
        return 0, 0
    eq = tot = 0
    for gid, me in enumerate(m["entries"]):
        tot += 2
        eq += (canon_bits(o["dod_bits"][gid]) == me[3]) + (canon_bits(o["j_bits"][gid]) == me[2])
    tot += 2
    eq += (canon_bits(o["dod"]) == m["dod"]) + (canon_bits(o["factor_bits"] or NAN_BITS) == m["factor"])
    return eq, tot


def nontrivial_graph(case):
    """C03's rule: E >= 2 and one of {mixed masses, >= 2 components, self-loop, parallel edges,
    externals a strict subset of the vertices, an untouched external}"""
    es = case["edges"]
    if len(es) < 2:
        return False
    pairs = [(e[0], e[1]) for e in es]
    vs = {v for p in pairs for v in p}
    ms = {bool(e[2]) for e in es}
    comps, _ = G.uf_components(pairs, list(range(len(pairs))))
    par = len({frozenset(p) for p in pairs}) < len(pairs)
    return (len(ms) == 2 or len(comps) >= 2 or any(a == b for a, b in pairs) or par
            or set(case["externals"]) < vs or any(x not in vs for x in case["externals"]))


def gen_mixed_cases(rng, n, emax, accepted_share=0.5):
    cases = []
    for i in range(n):
        rr = rng.fork()
        if rr.unit() < accepted_share:
            g = G.gen_accepted(rr, emax=emax)
        else:
            if rr.chance(0.6):
                pairs = G.random_multigraph(rr, emax)
            else:
                pairs = G.relabel(rr, rr.choice([f for f in G.FAMILIES if len(f[1]()) <= emax])[1]())
            g = G.make_graph(rr, pairs, rr.range(1, 6))
        cases.append(G.to_case(g))
    return cases


def case_graph(case):
    return dict(edges=[(e[0], e[1], e[2], b2f(e[3])) for e in case["edges"]], externals=case["externals"], D=case["D"])
