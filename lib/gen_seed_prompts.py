#!/usr/bin/env python3
"""Writes the prompts handed to the independent sub-agents that produce seeded changes
(DESIGN.md 10.9).  Each prompt contains ONLY the text of one property (and, for a second round,
the one-line titles of changes already made for it, so that the new one differs) and the path of a
private scratch worktree of /repo.  Nothing from /verif is given to them.
usage: gen_seed_prompts.py <round> Cxx [Cyy ...]     -> /tmp/mut/out/prompt_<id>.txt"""
import json, os, sys
props = {}
for l in open('/verif/properties.jsonl'):
    d = json.loads(l); props[d['id']] = d
PROMPT = '''You are helping to test verification machinery for the Rust crate momtrop (tropical Monte Carlo sampling of Feynman loop integrals in momentum space). Work ONLY inside the git worktree {wt} (a private scratch copy of the repository; do not touch /repo, and do not read or use anything under /verif).

Here is a semantic property the crate is supposed to satisfy:

  id: {id}
  title: {title}
  statement: {statement}
  quantified over: {quant}
  why the existing tests cannot settle it: {why}
  code anchors: {anchors}

Your task: produce ONE realistic source change to the crate (in {wt}/src/...) that BREAKS this property while the crate still compiles and the existing test-suite still passes (`cd {wt} && CARGO_TARGET_DIR={wt}/target cargo test --offline` : 35 tests; the integration test takes ~40 s). Prefer a change that needs something specific to manifest - an unusual input, a particular multi-step sequence, a corner of the input space, a graph shape/mass pattern/dimension the tests do not use, two sites that each look fine alone - rather than one that ordinary use would expose at once. It should look like a plausible refactoring slip, optimisation or "cleanup", not like sabotage. Keep it small (a few lines). Do not change public signatures and do not edit tests.{previous}

Also write a demonstration: a small Rust integration test file {wt}/tests/demo_{idl}.rs (it may use only the public API of the crate, including `momtrop::log::DummyLogger` if you enable the `log` feature with `--features log`, and serde_json is NOT available - do not add dependencies) that FAILS with your change and PASSES on the unchanged code. Verify both yourself: run it with your change, then `git stash` (or `git diff > patch; git checkout -- src`) and run it on the unchanged source, then re-apply.

When done, leave in /tmp/mut/out/{id}/ :
  - patch.diff : output of `git -C {wt} diff -- src` (only the src change, not the demo test)
  - demo_{idl}.rs : the demonstration test file
  - notes.md : what the change is, why it breaks the property, what it needs in order to manifest, and the exact commands you ran with their outcomes (demo fails with change / passes without; `cargo test --offline` still passes with the change, excluding your demo).
Finally reply with a 5-line summary. Time-box yourself to about 25 minutes; if your first idea does not work, pick a simpler one.'''
rnd = int(sys.argv[1])
os.makedirs('/tmp/mut/out', exist_ok=True)
for pid in sys.argv[2:]:
    d = props[pid]
    prev = ''
    if rnd > 1:
        titles = []
        for sub in sorted(os.listdir('/verif/seeded')):
            if sub == pid or sub.startswith(pid + '-'):
                t = open('/verif/seeded/%s/notes.md' % sub).readline().strip().lstrip('# ')
                titles.append(t)
        if titles:
            prev = ('\n\nChanges already made by others for this property (make a DIFFERENT one: another function, another mechanism, '
                    'another kind of input needed to expose it): ' + ' | '.join(titles))
    pr = PROMPT.format(wt='/tmp/mut/' + pid, id=pid, idl=pid.lower(), title=d['title'], statement=d['statement'],
                       quant=d['quantifier']['text'], why=d['why_tests_cant'], anchors=json.dumps(d['anchors']), previous=prev)
    open('/tmp/mut/out/prompt_%s.txt' % pid, 'w').write(pr)
    print(pid, len(pr))
