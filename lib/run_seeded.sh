#!/bin/bash
# usage: lib/run_seeded.sh <patch.diff> Cxx [Cyy ...]   -- apply a seeded change to /repo, run the checks, undo
set -u
patch=$1; shift
cd /repo || exit 2
if ! git diff --quiet; then echo "/repo has uncommitted changes"; exit 2; fi
git apply "$(cd /verif; realpath "$patch")" || { echo "patch does not apply"; exit 2; }
cd /verif
for p in "$@"; do
  echo "--- $p"
  out=$(./check $p --no-proofs 2>&1)
  echo "$out" | grep -E "VIOLATION|OK property|KNOWN"; echo "$out" | grep "\[property\]" | head -2; echo "$out" | grep "\[correspondence\]" | head -2
done
git -C /repo checkout -- .
git -C /repo status --short
