# Exact (rational) evaluation of the quantities the properties name, from binary64 inputs.
# Independent of the Coq model and of the implementation.
from fractions import Fraction as Fr
from itertools import combinations
import math
import graphs as G
from common import b2f


def frac(x):
    return Fr(x)          # exact value of a python float


def l_matrix(x, sig):
    E, L = len(sig), len(sig[0])
    return [[sum(x[e] * sig[e][i] * sig[e][j] for e in range(E)) for j in range(L)] for i in range(L)]


def det(M):
    n = len(M)
    A = [row[:] for row in M]
    d = Fr(1)
    for i in range(n):
        p = next((k for k in range(i, n) if A[k][i] != 0), None)
        if p is None:
            return Fr(0)
        if p != i:
            A[i], A[p] = A[p], A[i]
            d = -d
        d *= A[i][i]
        for k in range(i + 1, n):
            f = A[k][i] / A[i][i]
            if f != 0:
                for j in range(i, n):
                    A[k][j] -= f * A[i][j]
    return d


def inverse(M):
    n = len(M)
    A = [row[:] + [Fr(int(i == j)) for j in range(n)] for i, row in enumerate(M)]
    for i in range(n):
        p = next((k for k in range(i, n) if A[k][i] != 0), None)
        if p is None:
            return None
        A[i], A[p] = A[p], A[i]
        piv = A[i][i]
        A[i] = [v / piv for v in A[i]]
        for k in range(n):
            if k != i and A[k][i] != 0:
                f = A[k][i]
                A[k] = [a - f * b for a, b in zip(A[k], A[i])]
    return [row[n:] for row in A]


def matmul(A, B):
    return [[sum(A[i][k] * B[k][j] for k in range(len(B))) for j in range(len(B[0]))] for i in range(len(A))]


def transpose(A):
    return [list(r) for r in zip(*A)]


def cond_estimate(M):
    """kappa_inf = |M|_inf |M^-1|_inf, exact"""
    inv = inverse(M)
    if inv is None:
        return None
    nrm = lambda A: max(sum(abs(v) for v in row) for row in A)
    return nrm(M) * nrm(inv)


def u_vectors(x, sig, shifts):
    E, L, D = len(sig), len(sig[0]), len(shifts[0])
    return [[sum(sig[e][l] * x[e] * shifts[e][d] for e in range(E)) for d in range(D)] for l in range(L)]


def v_poly(x, sig, shifts, masses):
    """V = sum x (m^2 + p^2) - u^T L^-1 u, and the cancellation ratio (sum |terms|)/|V|"""
    Lm = l_matrix(x, sig)
    inv = inverse(Lm)
    us = u_vectors(x, sig, shifts)
    L, D = len(us), len(shifts[0])
    a = sum(x[e] * (masses[e] ** 2 + sum(p * p for p in shifts[e])) for e in range(len(x)))
    b = sum(inv[i][j] * sum(us[i][d] * us[j][d] for d in range(D)) for i in range(L) for j in range(L))
    v = a - b
    ratio = (abs(a) + abs(b)) / abs(v) if v != 0 else None
    return v, ratio, Lm, inv, us


def u_by_trees(pairs, x):
    """first Symanzik polynomial: sum over spanning trees of the product of x_e over edges NOT in the tree"""
    E = len(pairs)
    trees = G.spanning_trees(pairs)
    tot = Fr(0)
    for T in trees:
        p = Fr(1)
        for e in range(E):
            if e not in T:
                p *= x[e]
        tot += p
    return tot, len(trees)


def utrop_by_trees(pairs, x):
    E = len(pairs)
    best = None
    for T in G.spanning_trees(pairs):
        p = Fr(1)
        for e in range(E):
            if e not in T:
                p *= x[e]
        best = p if best is None or p > best else best
    return best


def two_forests(pairs):
    """spanning 2-forests of a connected graph: (edge set, vertex set of one of the two trees)"""
    E = len(pairs)
    vs = sorted({v for p in pairs for v in p})
    out = []
    if len(vs) < 2:
        return out
    for F in combinations(range(E), len(vs) - 2):
        if G.loop_number(pairs, list(F)) != 0:
            continue
        # components including isolated vertices
        parent = {v: v for v in vs}

        def find(a):
            while parent[a] != a:
                parent[a] = parent[parent[a]]
                a = parent[a]
            return a
        for e in F:
            ra, rb = find(pairs[e][0]), find(pairs[e][1])
            if ra != rb:
                parent[ra] = rb
        roots = {find(v) for v in vs}
        if len(roots) != 2:
            continue
        r0 = sorted(roots)[0]
        out.append((frozenset(F), frozenset(v for v in vs if find(v) == r0)))
    return out


def f_by_forests(pairs, x, ext_mom, masses):
    """second Symanzik polynomial F = sum_{2-forests} |momentum into one tree|^2 prod_{e not in F} x_e + U sum m^2 x.
    ext_mom: dict vertex -> incoming momentum vector (sums to zero)."""
    E = len(pairs)
    D = len(next(iter(ext_mom.values()))) if ext_mom else 0
    tot = Fr(0)
    mono = []
    for F, side in two_forests(pairs):
        p = [sum(ext_mom.get(v, [Fr(0)] * D)[d] for v in side) for d in range(D)]
        s = sum(c * c for c in p)
        if s == 0:
            continue
        m = Fr(1)
        for e in range(E):
            if e not in F:
                m *= x[e]
        tot += s * m
        mono.append((s, m))
    U, nT = u_by_trees(pairs, x)
    mass_term = U * sum(masses[e] ** 2 * x[e] for e in range(E))
    return tot + mass_term, U, mono, nT


def conserving_shifts(r, pairs, sig, tree, D):
    """external momenta on the vertices (sum zero) and edge shifts p_e with, at every vertex,
    sum_{e out of v} p_e - sum_{e into v} p_e = incoming external momentum.
    Chords get p = 0, tree edges carry the external flow; then a random loop offset S*a is added."""
    vs = sorted({v for p in pairs for v in p})
    last = vs[-1]
    for _try in range(12):
        ext = {v: [Fr(r.range(-8, 8), 4) for _ in range(D)] for v in vs}
        for d in range(D):
            ext[last][d] = -sum(ext[v][d] for v in vs[:-1])
        # generic: no proper non-empty subset of the external momenta sums to zero
        if len(vs) > 7 or all(any(sum(ext[vs[i]][d] for i in range(len(vs)) if mask >> i & 1) != 0 for d in range(D))
                              for mask in range(1, (1 << len(vs)) - 1)):
            break
    E = len(pairs)
    p = [[Fr(0)] * D for _ in range(E)]
    # solve on the spanning tree by leaf elimination
    tree = set(tree)
    deg = {v: 0 for v in vs}
    for e in tree:
        a, b = pairs[e]
        deg[a] += 1
        deg[b] += 1
    need = {v: list(ext[v]) for v in vs}     # momentum that must leave v through remaining tree edges
    remaining = set(tree)
    while remaining:
        leaf = next((v for v in vs if deg[v] == 1), None)
        if leaf is None:
            break
        e = next(e for e in remaining if leaf in pairs[e])
        a, b = pairs[e]
        other = b if a == leaf else a
        # edge oriented a->b carries p_e out of a into b
        for d in range(D):
            flow = need[leaf][d]              # must leave the leaf
            p[e][d] = flow if a == leaf else -flow
            need[other][d] += flow
        need[leaf] = [Fr(0)] * D
        deg[leaf] -= 1
        deg[other] -= 1
        remaining.discard(e)
    L = len(sig[0]) if sig else 0
    a_off = [[Fr(r.range(-6, 6), 4) for _ in range(D)] for _ in range(L)]
    for e in range(E):
        for d in range(D):
            p[e][d] += sum(sig[e][l] * a_off[l][d] for l in range(L))
    return ext, p
