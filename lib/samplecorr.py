# Sample-level correspondence shared by C01, C02, C06-C11, C13, C14, C16-C19:
# generate_sample_from_x_space_point (T = f64 and T = Inst) vs the Coq model's `sample`.
from common import *
import graphs as G, tablecorr as TC

OP_IGAM = 9


def gen_sample_case(r, emax=6, Ds=(1, 2, 3, 4, 5, 6), massless_share=0.3, stability=None, fams=None, zero_shift_share=0.15, ext_all=False, all_masses=False, connected=True):
    """accepted connected graph with >= 1 loop, a cycle-basis signature, a point, edge data"""
    for _ in range(50):
        g = G.gen_accepted(r, emax=emax, connected=connected, Ds=Ds, fams=fams, ext_all=ext_all)
        pairs = [(e[0], e[1]) for e in g["edges"]]
        E = len(pairs)
        L = G.loop_number(pairs, list(range(E)))
        if L >= 1:
            break
    sig, tree, chords = G.fundamental_signature(pairs)
    M = G.random_unimodular(r, L)
    sig = G.change_basis(sig, M)
    if L >= 3 and r.chance(0.4):
        sig = G.sparse_basis(r, sig)          # cycle bases with edge-disjoint cycles: zero entries of L with fill-in in its factor
    flips = [r.chance(0.3) for _ in range(E)]
    sig = [[-x for x in row] if fl else row for row, fl in zip(sig, flips)]
    D = g["D"]
    dim = G.num_variables(E, L, D)
    point = [r.open_unit() for _ in range(dim)]
    ed = []
    zero_shifts = r.chance(zero_shift_share)
    # a third kind of kinematics: momentum flows only through edges that belong to a LATER loop of the basis and to no earlier
    # one, so the u vectors of the earlier loops vanish exactly while a later one does not
    only = None
    if not zero_shifts and L >= 2 and r.chance(0.12):
        lstar = r.range(1, L - 1)
        own = [e for e in range(E) if sig[e][lstar] != 0 and all(sig[e][l] == 0 for l in range(lstar))]
        if own:
            only = set(own)
    for e_idx, (a, b, m, w) in enumerate(g["edges"]):
        mass = None
        if m and (all_masses or not r.chance(0.1)):
            mass = 0.1 + 2.0 * r.unit()
        sh = [0.0] * D if (zero_shifts or (only is not None and e_idx not in only)) else [round((r.unit() - 0.5) * 4, 3) for _ in range(D)]
        ed.append(dict(mass=(f2b(mass) if mass is not None else None), shift=[f2b(x) for x in sh]))
    c = G.to_case(g)
    c["oriented_pairs"] = [[b, a] if fl else [a, b] for (a, b), fl in zip(pairs, flips)]
    c.update(signature=sig, point=[f2b(x) for x in point], edge_data=ed, stability=(f2b(stability) if stability is not None else None),
             debug=True, metadata=True, family=g.get("family"), L=L)
    return c


def cornerize(r, c, exps=(3, 6, 9, 12)):
    """move one or two of the xi coordinates (odd positions of the first 2E-2) of a case to 10^-k: hierarchical Feynman
    parameters, tiny kappas, condition numbers of L up to ~1e12"""
    E = len(c["edges"])
    idx = [i for i in range(1, 2 * E - 2, 2)]
    if not idx:
        return c
    for i in ([r.choice(idx)] if r.chance(0.6) else [r.choice(idx), r.choice(idx)]):
        c["point"][i] = f2b(10.0 ** -r.choice(list(exps)))
    return c


def coq_sig(sig):
    return coq_list([coq_list([coq_Z(x) for x in row]) for row in sig])


def coq_edata(ed):
    return coq_list(["(%s, %s)" % (("Some %s" % coq_float(b2f(e["mass"]))) if e["mass"] is not None else "None",
                                   coq_flist([b2f(x) for x in e["shift"]])) for e in ed])


def coq_opt(x):
    return "None" if x is None else "(Some %s)" % coq_float(b2f(x))


def sample_oracle_entries(case, timpl, simpl):
    """table oracle (gamma, pi^x) + the transcendental calls the implementation made at T = Inst + the Gamma quantile"""
    ents = []
    qs = TC.table_oracle_entries(case, timpl)
    return qs


def run_samples(tag, cases, profile="debug", batch=10):
    """returns list of dict(impl=..., model=parsed or raw list)"""
    impl = harness("sample", dict(cases=cases), profile=profile, timeout=900)["results"]
    timpl = harness("table", dict(cases=cases), profile=profile, timeout=900)["results"]
    # oracle queries answered by the very functions the code calls
    allq, spans = [], []
    for c, o, t in zip(cases, impl, timpl):
        q = TC.table_oracle_entries(c, t)
        if t.get("ok"):
            E = len(c["edges"])
            if len(c["point"]) > 2 * E - 2:
                q.append((OP_IGAM, b2f(t["dod"]), b2f(c["point"][2 * E - 2])))
        spans.append((len(allq), len(q)))
        allq += q
    ans = oracle_answers_ext(allq, profile)
    exprs = []
    for c, o, (s, n) in zip(cases, impl, spans):
        ents = [(q[0], f2b(q[1]), f2b(q[2]), a) for q, a in zip(allq[s:s + n], ans[s:s + n]) if a is not None]
        inst = o.get("inst", {}) if isinstance(o, dict) else {}
        for call in (inst.get("trace", {}) or {}).get("calls", []):
            ents.append((call[0], call[1], call[2] if call[0] == 5 else 0, call[3]))
        exprs.append("(render_sample %s %s %s %d %s %s %s %s)" % (
            TC.coq_oracle(ents), TC.coq_edges(c), TC.coq_ext(c), c["D"], coq_flist([b2f(x) for x in c["point"]]),
            coq_sig(c["signature"]), coq_edata(c["edge_data"]), coq_opt(c.get("stability"))))
    raw = run_model(tag, [], TC.PRELUDE, exprs, batch=batch)
    return [dict(impl=o, table=t, model=parse_model_sample(c, r)) for c, o, t, r in zip(cases, impl, timpl, raw)]


def oracle_answers_ext(queries, profile="debug"):
    qs = [[op, f2b(a), f2b(b)] for op, a, b in queries]
    return harness("oracle", dict(queries=qs), profile=profile)["results"]


def parse_model_sample(c, r):
    E, L, D = len(c["edges"]), c["L"], c["D"]
    if r[0] < 0:
        return dict(tag="build_err" if r[0] == -1 else "build_panic")
    if r[0] == 3:
        return dict(tag="panic", why=r[1])
    if r[0] == 1:
        return dict(tag="err", err={1: "MatrixError(ZeroDet)", 2: "MatrixError(Unstable)", 3: "GammaError(GammaError)"}[r[1]])
    p = [1]

    def take(n):
        v = r[p[0]:p[0] + n]
        p[0] += n
        return v
    m = dict(tag="ok")
    m["order"] = take(E)
    m["x_pre"] = take(E)
    m["x"] = take(E)
    m["utrop_pre"], m["vtrop_pre"], m["sector_reads"], m["reads"] = take(4)
    m["u"], m["v"], m["jacobian"], m["u_trop"], m["v_trop"] = take(5)
    m["loop_momenta"] = take(L * D)
    if p[0] < len(r):
        m["q_vectors"] = take(L * D)
        m["lambda"] = take(1)[0]
        m["l_matrix"] = take(L * L)
        m["determinant"] = take(1)[0]
        m["inverse"] = take(L * L)
        m["q_transposed"] = take(L * L)
        m["q_transposed_inverse"] = take(L * L)
        m["u_vectors"] = take(L * D)
        m["shift"] = take(L * D)
    assert p[0] == len(r), (p[0], len(r))
    return m


# ---- flattening the implementation's output the same way
def vals(xs):
    return [canon_bits(x[0]) for x in xs]


def vecs(vs):
    return [canon_bits(x[0]) for v in vs for x in v]


def impl_fields(o):
    """o = result of one scalar run (f64 or inst) -> dict like the model's"""
    if "panic" in o:
        return dict(tag="panic", why=o["panic"])
    if not o["ok"]:
        return dict(tag="err", err=o["err"])
    m = dict(tag="ok")
    lg = o["log"]
    m["x_pre"] = [canon_bits(x) for x in lg.get("momtrop_feynman_parameter_no_rescaling", [])]
    m["x"] = [canon_bits(x) for x in lg.get("momtrop_feynman_parameter", [])]
    m["utrop_pre"] = canon_bits(lg["momtrop_u_trop_no_rescaling"]) if "momtrop_u_trop_no_rescaling" in lg else None
    m["vtrop_pre"] = canon_bits(lg["momtrop_v_trop_no_rescaling"]) if "momtrop_v_trop_no_rescaling" in lg else None
    for k in ["u", "v", "jacobian", "u_trop", "v_trop"]:
        m[k] = canon_bits(o[k][0])
    m["loop_momenta"] = vecs(o["loop_momenta"])
    md = o["metadata"]
    if md:
        m["q_vectors"] = vecs(md["q_vectors"])
        m["lambda"] = canon_bits(md["lambda"][0])
        m["l_matrix"] = vals(md["l_matrix"]["data"])
        m["determinant"] = canon_bits(md["determinant"][0])
        m["inverse"] = vals(md["inverse"]["data"])
        m["q_transposed"] = vals(md["q_transposed"]["data"])
        m["q_transposed_inverse"] = vals(md["q_transposed_inverse"]["data"])
        m["u_vectors"] = vecs(md["u_vectors"])
        m["shift"] = vecs(md["shift"])
    return m


def removal_order_from_xpre(x_pre):
    """the k-th removed edge carries the k-th kappa: kappas are non-increasing along the removal order"""
    return None


def cmp_field(name, a, b, rel):
    """a (impl), b (model) : bits or lists of bits. returns list of messages"""
    if isinstance(a, list):
        if len(a) != len(b):
            return ["%s: length impl %d model %d" % (name, len(a), len(b))]
        out = []
        for i, (x, y) in enumerate(zip(a, b)):
            if not rel_close(b2f(x), b2f(y), rel):
                out.append("%s[%d]: impl %r model %r" % (name, i, b2f(x), b2f(y)))
        return out
    if a is None:
        return ["%s: not reported by the implementation" % name]
    return [] if rel_close(b2f(a), b2f(b), rel) else ["%s: impl %r model %r" % (name, b2f(a), b2f(b))]


def standard_run(rep, rng, tier, tag, fields, rel, n_quick=60, n_thorough=600, nontrivial=None, extra_cases=None, keep_mismatch=False, **gen_kw):
    """generate cases, run implementation and model, compare `fields` under relative tolerance `rel`.
    yields (case, impl_f64_fields, model, raw_impl) for cases where both succeeded."""
    n = n_quick if tier == "quick" else n_thorough
    cases = list(extra_cases or [])
    cases += [gen_sample_case(rng.fork(), **gen_kw) for _ in range(n)]
    res = run_samples(tag, cases)
    out = []
    eq = tot = 0
    hist = {}
    for c, x in zip(cases, res):
        o, m = x["impl"], x["model"]
        if "f64" not in o:
            rep.violation("machinery", "sample harness: %s" % str(o)[:300], case=c)
            continue
        fi = impl_fields(o["f64"])
        ii = impl_fields(o["inst"])
        key = "L=%d,D=%d" % (c["L"], c["D"])
        hist[key] = hist.get(key, 0) + 1
        rep.count([c["edges"], c["point"], c["signature"], c["edge_data"]], nontrivial(c) if nontrivial else True)
        if fi["tag"] != m["tag"] or (fi["tag"] == "err" and fi["err"] != m["err"]):
            rep.violation("correspondence", "outcome: implementation %s, model %s" % (
                {k: fi[k] for k in fi if k in ("tag", "err", "why")}, {k: m[k] for k in m if k in ("tag", "err", "why")}), case=c)
            if keep_mismatch and fi["tag"] == "ok":
                out.append((c, fi, None, o, x["table"]))      # the caller's direct oracles still judge the implementation's result
            continue
        if fi["tag"] != "ok":
            continue
        if fi != ii:
            rep.violation("correspondence", "values at T = Inst differ from T = f64 (instrumentation must not change values)", case=c)
        for k in fields:
            if k not in fi or k not in m:
                rep.violation("correspondence", "field %s not observable" % k, case=c)
                continue
            msgs = cmp_field(k, fi[k], m[k], rel)
            if msgs:
                rep.violation("correspondence", "; ".join(msgs[:3]), case=c)
            a, b = (fi[k], m[k]) if isinstance(fi[k], list) else ([fi[k]], [m[k]])
            tot += len(a)
            eq += sum(1 for p, q in zip(a, b) if p == q)
        out.append((c, fi, m, o, x["table"]))
    rep.cov["loops_dimension_histogram"] = hist
    rep.cov["bit_exact_rate"] = (eq / tot) if tot else None
    return out


def floats(bits):
    return [b2f(x) for x in bits]


def case_numbers(c):
    """python floats of a case: weights, point, masses, shifts"""
    E = len(c["edges"])
    masses = [b2f(ed["mass"]) if ed["mass"] is not None else 0.0 for ed in c["edge_data"]]
    shifts = [[b2f(x) for x in ed["shift"]] for ed in c["edge_data"]]
    return dict(E=E, L=c["L"], D=c["D"], point=floats(c["point"]), masses=masses, shifts=shifts,
                pairs=[(e[0], e[1]) for e in c["edges"]], sig=c["signature"])
