import os
AREAS = [
 ("N01", "src/sampling.rs: compute_l_matrix and compute_u_vectors -- e.g. accumulate over the edges in reverse order, or factor x_e out differently"),
 ("N02", "src/preprocessing.rs: generate_from_tropical -- the J recursion sum and the cached_factor product (e.g. sum over the edges in reverse order, multiply the Gamma/pi factors in another order, compute pi^(D L/2) as (pi^(D/2))^L)"),
 ("N03", "src/sampling.rs: compute_v_polynomial and compute_loop_momenta -- e.g. cross terms before diagonal terms, 2*(a*b) instead of (2*a)*b, accumulate the sum over l' in reverse"),
 ("N04", "src/matrix.rs: decompose_for_tropical -- e.g. accumulate the Cholesky sums in reverse order, compute the determinant as the product of squared pivots instead of the square of the product, sum the nilpotent series from the highest power down"),
 ("N05", "src/sampling.rs: box_muller, sample_q_vectors and the rescaling block of permatuhedral_sampling -- e.g. theta = 2*(pi*x2), sqrt(-2 ln a) as sqrt(2)*sqrt(-ln a), powers combined differently in the rescaling target"),
 ("N06", "src/preprocessing.rs: sample_edge and src/sampling.rs: the kappa update of permatuhedral_sampling -- e.g. p_e computed as J/(J_g*omega), kappa *= xi^(1/omega) written as exp(ln(xi)/omega) is NOT allowed (other function), but (xi.powf(inv)) with inv computed as 1/omega in T vs from_f64(1/omega) is NOT allowed either; stay with regrouping products/quotients"),
]
PROMPT = '''You are helping to test verification machinery for the Rust crate momtrop (tropical Monte Carlo sampling of Feynman loop integrals in momentum space). Work ONLY inside the git worktree {wt} (a private scratch copy of the repository; do not touch /repo, and do not read or use anything under /verif).

Your task: make ONE realistic rewrite in this area of the crate that is MATHEMATICALLY IDENTICAL but may ROUND DIFFERENTLY in floating point: {area}.

It must be the kind of change a maintainer could make in good faith (re-association or re-ordering of sums and products, an algebraically equal formula using the SAME elementary functions of the MomTropFloat trait, no new function calls such as exp/ln where there were none, no change of precision, no to_f64/from_f64 added or removed). Every result must stay correct to within a few units in the last place times the condition number; nothing else may change: the same numbers are read from the x-space point / random generator in the same order, the same errors and panics, the same serialised form, no new dependencies, no change of public signatures, no unsafe/statics/interior mutability. Keep it to 5-30 changed lines. The existing tests contain one bit-exact assertion (tests/triangle.rs, a one-loop massless triangle in D=3): your rewrite must keep `cd {wt} && CARGO_TARGET_DIR={wt}/target cargo test --offline` green (35 tests), so choose a rewrite whose rounding differs only for inputs that test does not exercise (two or more loops, masses, D != 3, ...), or that happens to round identically there.

Also write {wt}/tests/close_{idl}.rs: on 2-3 graphs (at least one with two loops, masses and shifts) it compares a few hundred outputs of the public API with values recorded from the UNCHANGED source (record them first) and asserts that every value agrees to a relative 1e-10, and it prints how many differ in the last bits (at least one should, otherwise pick another rewrite).

When done, leave in /tmp/mut/out/{id}/ : patch.diff (`git -C {wt} diff -- src`), close_{idl}.rs, notes.md (what you rewrote, why it is mathematically identical, how many outputs changed in the last bits, commands and outcomes).
Finally reply with a 5-line summary. Time-box yourself to about 25 minutes.'''
os.makedirs('/tmp/mut/out', exist_ok=True)
for rid, area in AREAS:
    open('/tmp/mut/out/prompt_%s.txt' % rid, 'w').write(PROMPT.format(wt='/tmp/mut/' + rid, area=area, id=rid, idl=rid.lower()))
