# Graph generators and exact (rational) oracles used by the checks.
# The oracles here are INDEPENDENT of both the Coq model and the implementation:
# union-find components, Euler characteristic, exact Fractions.
from fractions import Fraction
from itertools import combinations, permutations
import math
from common import f2b, b2f


# ------------------------------------------------------------------ families
def fam_tadpole(): return [(0, 0)]
def fam_banana(n): return [(0, 1)] * n
def fam_polygon(n): return [(i, (i + 1) % n) for i in range(n)]
def fam_double_triangle(): return [(0, 1), (1, 2), (2, 0), (1, 3), (3, 2)]
def fam_mercedes(): return [(0, 1), (1, 2), (2, 0), (0, 3), (1, 3), (2, 3)]
def fam_ladder(loops):
    # two rails 0..loops and 10..10+loops, rungs between them
    e = []
    for i in range(loops):
        e.append((i, i + 1))
        e.append((10 + i, 10 + i + 1))
    for i in range(loops + 1):
        e.append((i, 10 + i))
    return e
def fam_two_tadpoles(): return [(0, 0), (5, 5)]
def fam_bubble_chain(n):
    e = []
    for i in range(n):
        e += [(i, i + 1), (i, i + 1)]
    return e
def fam_tadpole_on_bubble(): return [(0, 1), (0, 1), (1, 1)]
def fam_disconnected(): return [(0, 1), (0, 1), (7, 8), (7, 8)]
def fam_dumbbell(): return [(0, 1), (0, 1), (1, 2), (2, 3), (2, 3)]          # two bubbles joined by a bridge (bridge in the middle of the edge list)
def fam_lollipop(): return [(0, 1), (1, 2), (1, 2)]                          # a bridge first, then a bubble
def fam_tailed_triangle(): return [(1, 2), (0, 1), (2, 3), (3, 1)]           # a bridge between loop edges
def fam_triangle_chain(n):
    # n triangles glued along edges: consecutive ones share an edge, the others are edge-disjoint
    e = [(0, 1)]
    for i in range(n):
        e += [(i, i + 2), (i + 1, i + 2)]
    return e


FAMILIES = [
    ("tadpole", fam_tadpole), ("bubble", lambda: fam_banana(2)), ("sunrise", lambda: fam_banana(3)),
    ("banana4", lambda: fam_banana(4)), ("triangle", lambda: fam_polygon(3)), ("box", lambda: fam_polygon(4)),
    ("pentagon", lambda: fam_polygon(5)), ("double_triangle", fam_double_triangle), ("mercedes", fam_mercedes),
    ("ladder2", lambda: fam_ladder(2)), ("two_tadpoles", fam_two_tadpoles), ("bubble_chain2", lambda: fam_bubble_chain(2)),
    ("tadpole_on_bubble", fam_tadpole_on_bubble), ("disconnected", fam_disconnected),
    ("ladder3", lambda: fam_ladder(3)), ("bubble_chain3", lambda: fam_bubble_chain(3)),
    ("triangle_chain3", lambda: fam_triangle_chain(3)), ("banana5", lambda: fam_banana(5)),
    ("dumbbell", fam_dumbbell), ("lollipop", fam_lollipop), ("tailed_triangle", fam_tailed_triangle),
    ("banana6", lambda: fam_banana(6)),
]


def relabel(r, pairs):
    """random injective relabelling of the vertices into the u8 range"""
    vs = sorted({v for p in pairs for v in p})
    labs = set()
    while len(labs) < len(vs):
        labs.add(r.below(256) if r.chance(0.3) else r.below(12))
    labs = list(labs)
    r.shuffle(labs)
    m = dict(zip(vs, labs))
    return [(m[a], m[b]) for a, b in pairs]


def random_multigraph(r, emax):
    E = r.range(1, emax)
    nv = r.range(1, max(1, min(E + 1, 6)))
    pairs = []
    for _ in range(E):
        a = r.below(nv)
        b = r.below(nv) if r.chance(0.8) else a
        pairs.append((a, b))
    return pairs


GRID = [Fraction(k, 8) for k in range(1, 33)]


def rand_weight(r, kind):
    if kind == "grid":
        return float(r.choice(GRID))
    if kind == "unit":
        return 1.0
    return 0.1 + 3.0 * r.unit()        # random double


def make_graph(r, pairs, D, massive=None, externals=None, wkind=None):
    E = len(pairs)
    wkind = wkind or r.choice(["grid", "grid", "unit", "double"])
    if massive is None:
        mode = r.below(4)
        massive = [mode == 1 or (mode >= 2 and r.chance(0.5)) for _ in range(E)]
    vs = sorted({v for p in pairs for v in p})
    if externals is None:
        k = r.below(7)
        if k == 0:
            externals = list(vs)
        elif k == 1:
            externals = []
        elif k >= 4:
            a, b = r.choice(pairs)         # a two-point function: the endpoints of one edge (or a single vertex for a self-loop)
            externals = [a] if a == b or r.chance(0.25) else [a, b]
        else:
            externals = [v for v in vs if r.chance(0.5)]
        if r.chance(0.08):
            free = [x for x in range(256) if x not in vs]
            externals.append(r.choice(free))     # an external vertex no edge touches
        r.shuffle(externals)
    edges = [(a, b, bool(m), rand_weight(r, wkind)) for (a, b), m in zip(pairs, massive)]
    return dict(edges=edges, externals=externals, D=D)


def to_case(g):
    c = dict(edges=[[a, b, m, f2b(w)] for a, b, m, w in g["edges"]], externals=list(g["externals"]), D=g["D"])
    if "signature" in g:
        c["signature"] = g["signature"]
    return c


# ------------------------------------------------------------------ exact oracles
def uf_components(edges, idxs):
    """connected components (as lists of edge indices) of the edge subset idxs, by union-find on vertices"""
    parent = {}

    def find(x):
        while parent[x] != x:
            parent[x] = parent[parent[x]]
            x = parent[x]
        return x
    for i in idxs:
        a, b = edges[i][0], edges[i][1]
        for v in (a, b):
            parent.setdefault(v, v)
        ra, rb = find(a), find(b)
        if ra != rb:
            parent[ra] = rb
    comps = {}
    for i in idxs:
        comps.setdefault(find(edges[i][0]), []).append(i)
    return list(comps.values()), len(parent)


def loop_number(edges, idxs):
    comps, nv = uf_components(edges, idxs)
    return len(idxs) - nv + len(comps)


def is_spanning(g, idxs):
    edges = g["edges"]
    if any(e[2] for i, e in enumerate(edges) if i not in set(idxs)):
        return False
    comps, _ = uf_components(edges, idxs)
    for c in comps:
        vs = {v for i in c for v in edges[i][:2]}
        if all(x in vs for x in g["externals"]):
            return True
    return False


def exact_table(g):
    """list over ids of (loops, spanning, exact generalised dod as Fraction); plus overall dod, L"""
    edges, D = g["edges"], g["D"]
    E = len(edges)
    w = [Fraction(e[3]) for e in edges]
    L = loop_number(edges, list(range(E)))
    dod = sum(w) - Fraction(L * D, 2)
    tab = []
    for gid in range(1 << E):
        idxs = [i for i in range(E) if gid >> i & 1]
        l = loop_number(edges, idxs)
        sp = is_spanning(g, idxs)
        if gid == 0:
            gd = Fraction(1)
        else:
            gd = sum(w[i] for i in idxs) - Fraction(l * D, 2) - (dod if sp else 0)
        tab.append((l, sp, gd))
    return tab, dod, L


def divergent_subsets(tab):
    n = len(tab)
    return [gid for gid in range(1, n - 1) if tab[gid][2] <= 0]


def exact_J(tab):
    n = len(tab)
    J = [Fraction(0)] * n
    J[0] = Fraction(1)
    E = n.bit_length() - 1
    for gid in range(1, n):
        s = Fraction(0)
        for e in range(E):
            if gid >> e & 1:
                h = gid ^ (1 << e)
                s += J[h] / tab[h][2]
        J[gid] = s
    return J


def num_variables(E, L, D):
    G = L * D
    return 2 * E - 1 + G + G % 2


def accepted(g):
    tab, dod, L = exact_table(g)
    return not divergent_subsets(tab), tab, dod, L


def gen_spanning_sensitive(r, emax, Ds):
    """accepted massless graphs whose two external vertices are the endpoints of the LAST edge and whose overall degree of
    divergence is small: many disconnected proper subsets are mass-momentum spanning through a component that does not
    contain the lowest-numbered edge, so the table depends on every component being inspected"""
    cands = [(n, f) for n, f in FAMILIES if n in ("box", "pentagon", "double_triangle", "mercedes", "ladder2", "triangle_chain3", "banana4", "tailed_triangle", "dumbbell")]
    for _ in range(30):
        name, fam = r.choice(cands)
        pairs = fam()
        if len(pairs) > emax or len(pairs) < 4:
            continue
        pairs = relabel(r, pairs)
        r.shuffle(pairs)
        a, b = pairs[-1]
        if a == b:
            continue
        D = r.choice(Ds)
        Lg = loop_number(pairs, list(range(len(pairs))))
        for _ in range(8):
            base = [0.5 + r.unit() for _ in pairs]
            sc = (Lg * D / 2.0 + r.choice([0.0625, 0.125, 0.25, 0.5])) / sum(base)
            g = dict(edges=[(p[0], p[1], False, bw * sc) for p, bw in zip(pairs, base)], externals=[a, b], D=D)
            ok, tab, dod, L = accepted(g)
            if ok and dod > 0 and min((t[2] for t in tab[1:-1]), default=Fraction(1)) > Fraction(1, 20):
                g["family"] = name + "/two-point"
                return g
    return None


def gen_accepted(r, emax=6, tries=60, connected=False, fams=None, want_dod_pos=True, Ds=(1, 2, 3, 4, 5, 6), ext_all=False):
    """an accepted graph (no divergent proper subgraph, dod > 0), by rejection on a weight grid"""
    if fams is None and not ext_all and want_dod_pos and emax >= 4 and r.chance(0.15):
        g = gen_spanning_sensitive(r, emax, Ds)
        if g is not None:
            return g
    fams = fams or FAMILIES
    for _ in range(tries):
        name, fam = r.choice(fams)
        pairs = fam()
        if len(pairs) > emax:
            continue
        if connected and len(uf_components([(a, b) for a, b in pairs], list(range(len(pairs))))[0]) != 1:
            continue
        pairs = relabel(r, pairs)
        if r.chance(0.5):
            r.shuffle(pairs)               # the edge numbering is arbitrary: the lowest-numbered edge need not touch an external vertex
        D = r.choice(Ds)
        g = make_graph(r, pairs, D, externals=(sorted({v for p in pairs for v in p}) if ext_all else None))
        thr = False
        for _ in range(12):
            ok, tab, dod, L = accepted(g)
            min_gd = min((t[2] for t in tab[1:-1]), default=Fraction(1))
            if ok and (dod > 0 or not want_dod_pos) and min_gd > (Fraction(1, 20) if thr else Fraction(1, 1000)):
                g["family"] = name
                return g
            # re-draw weights (and sometimes masses)
            wk = r.choice(["grid", "double", "threshold", "equal"])
            if wk == "equal":
                # all propagators with the SAME weight (bit-identical), masses as they are: interchangeable lines that differ in mass only
                Lg = loop_number(g["edges"], list(range(len(g["edges"]))))
                w_eq = (Lg * D / 2.0 + r.choice([0.25, 0.5, 1.0, 2.0])) / len(g["edges"])
                g["edges"] = [(a, b, m, w_eq) for (a, b, m, w) in g["edges"]]
                continue
            thr = wk == "threshold"
            if wk == "threshold":
                # a small positive overall degree of divergence: with few external vertices many proper subgraphs are
                # mass-momentum spanning and only such weights make the graph acceptable
                base = [0.5 + r.unit() for _ in g["edges"]]
                Lg = loop_number(g["edges"], list(range(len(g["edges"]))))
                target = Lg * D / 2.0 + r.choice([0.0625, 0.125, 0.25, 0.5])
                sc = target / sum(base)
                g["edges"] = [(a, b, m, bw * sc) for (a, b, m, w), bw in zip(g["edges"], base)]
            else:
                g["edges"] = [(a, b, (m or r.chance(0.3)), rand_weight(r, wk)) for a, b, m, w in g["edges"]]
    # fallback: massive bubble, always accepted for D <= 3
    g = make_graph(r, [(0, 1), (0, 1)], 3, massive=[True, True], externals=[0, 1], wkind="unit")
    g["family"] = "fallback_bubble"
    return g


# ------------------------------------------------------------------ cycle bases / signatures
def fundamental_signature(pairs):
    """E x L integer signature: a fundamental cycle basis w.r.t. a spanning forest (edge i oriented a->b).
    signature[e][l] = coefficient of loop momentum l on edge e."""
    E = len(pairs)
    adj = {}
    tree = set()
    parent = {}
    # build spanning forest greedily with union-find
    uf = {}

    def find(x):
        while uf[x] != x:
            uf[x] = uf[uf[x]]
            x = uf[x]
        return x
    for i, (a, b) in enumerate(pairs):
        uf.setdefault(a, a); uf.setdefault(b, b)
        ra, rb = find(a), find(b)
        if ra != rb:
            uf[ra] = rb
            tree.add(i)
            adj.setdefault(a, []).append((b, i, +1))   # traversing a->b follows the edge
            adj.setdefault(b, []).append((a, i, -1))
    chords = [i for i in range(E) if i not in tree]
    sig = [[0] * len(chords) for _ in range(E)]

    def path(src, dst):
        # DFS in the forest from src to dst, returns list of (edge, sign)
        stack = [(src, None, [])]
        seen = {src}
        while stack:
            v, _, p = stack.pop()
            if v == dst:
                return p
            for (w, i, s) in adj.get(v, []):
                if w not in seen:
                    seen.add(w)
                    stack.append((w, i, p + [(i, s)]))
        return None
    for l, c in enumerate(chords):
        a, b = pairs[c]
        sig[c][l] = 1
        if a != b:
            for (i, s) in path(b, a):      # close the cycle b -> a through the forest
                sig[i][l] += s
    return sig, sorted(tree), chords


def det_int(M):
    n = len(M)
    A = [[Fraction(x) for x in row] for row in M]
    d = Fraction(1)
    for i in range(n):
        p = next((k for k in range(i, n) if A[k][i] != 0), None)
        if p is None:
            return Fraction(0)
        if p != i:
            A[i], A[p] = A[p], A[i]
            d = -d
        d *= A[i][i]
        for k in range(i + 1, n):
            f = A[k][i] / A[i][i]
            for j in range(i, n):
                A[k][j] -= f * A[i][j]
    return d


def random_unimodular(r, L, steps=None):
    M = [[1 if i == j else 0 for j in range(L)] for i in range(L)]
    if L == 1:
        if r.chance(0.5):
            M[0][0] = -1
        return M
    for _ in range(steps if steps is not None else r.range(0, 2 * L)):
        i, j = r.below(L), r.below(L)
        if i == j:
            for k in range(L):
                M[k][i] = -M[k][i]      # flip a column
        else:
            c = r.choice([1, -1])
            for k in range(L):
                M[k][j] += c * M[k][i]  # column operation
    return M


def fill_in_score(sig):
    """number of pairs i<j of basis cycles that share no edge (L_ij vanishes identically) although an
    EARLIER cycle k<i overlaps both: exactly the entries where the Cholesky factor and its inverse fill in"""
    if not sig or not sig[0]:
        return 0
    L = len(sig[0])
    sup = [{e for e, row in enumerate(sig) if row[l] != 0} for l in range(L)]
    n = 0
    for i in range(L):
        for j in range(i + 1, L):
            if not (sup[i] & sup[j]) and any(sup[k] & sup[i] and sup[k] & sup[j] for k in range(i)):
                n += 1
    return n


def sparse_basis(r, sig, tries=300):
    """a unimodular change of the cycle basis chosen to maximise fill_in_score (sparse L matrices whose factor is NOT
    sparse): candidate cycles are the combinations S*m, m in {-1,0,1}^L, with entries in {-1,0,1}; L of them with
    det(m-vectors) = +-1 are drawn (small supports preferred) and ordered for the largest score"""
    L = len(sig[0]) if sig and sig[0] else 0
    if L < 3 or L > 5:
        return sig
    cands = []
    for code in range(1, 3 ** L):
        m = [(code // 3 ** k) % 3 - 1 for k in range(L)]
        if not any(m):
            continue
        col = [sum(row[k] * m[k] for k in range(L)) for row in sig]
        if all(abs(v) <= 1 for v in col):
            cands.append((sum(1 for v in col if v), m, col))
    cands.sort(key=lambda t: t[0])
    small = cands[:max(2 * L + 4, len(cands) // 3)]
    if not small:
        return sig
    best, bs = sig, fill_in_score(sig)
    for _ in range(tries):
        pick = [r.choice(small) for _ in range(L)]
        Mm = [[pick[c][1][k] for c in range(L)] for k in range(L)]
        if abs(det_int(Mm)) != 1:
            continue
        for perm in (permutations(range(L)) if L <= 4 else [tuple(range(L))]):
            c2 = [[pick[k][2][e] for k in perm] for e in range(len(sig))]
            sc = fill_in_score(c2)
            if sc > bs:
                best, bs = c2, sc
    return best


def matmul_int(A, B):
    return [[sum(A[i][k] * B[k][j] for k in range(len(B))) for j in range(len(B[0]))] for i in range(len(A))]


def change_basis(sig, M):
    """S' = S * M"""
    if not sig or not sig[0]:
        return [list(row) for row in sig]
    return matmul_int(sig, M)


def spanning_trees(pairs):
    """all spanning trees (as frozensets of edge indices) of a connected multigraph"""
    E = len(pairs)
    vs = {v for p in pairs for v in p}
    k = len(vs) - 1
    out = []
    for T in combinations(range(E), k):
        comps, nv = uf_components(pairs, list(T))
        if k == 0:
            out.append(frozenset())
            break
        if nv == len(vs) and len(comps) == 1 and loop_number(pairs, list(T)) == 0:
            out.append(frozenset(T))
    return out
