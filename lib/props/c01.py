# C01 -- the Monte Carlo estimator is unbiased: mean weight equals the Feynman integral.
# Pointwise: weight and loop momenta of the implementation vs the theorem-backed model (whole pipeline).
# Aggregate: for graphs with closed forms the mean of jacobian over the hypercube vs the closed form.
from common import *
import graphs as G, samplecorr as SC, exact as X
from fractions import Fraction as Fr
import mpmath
import importlib
c10 = importlib.import_module("props.c10")
c04 = importlib.import_module("props.c04")
c07 = importlib.import_module("props.c07")


def closed_form_cases(rng, tier):
    """(case, exact value): massive tadpoles, products of tadpoles, equal-mass bubble at zero external momentum"""
    out = []
    mpmath.mp.dps = 30
    n = 40000 if tier == "quick" else 400000
    def tad(nu, m, D):
        return mpmath.pi ** (mpmath.mpf(D) / 2) * mpmath.gamma(nu - mpmath.mpf(D) / 2) / mpmath.gamma(nu) * mpmath.mpf(m) ** (D - 2 * nu)
    specs = [("tadpole", 3, [2.0], 1.0), ("tadpole", 2, [1.5], 0.7), ("tadpole", 4, [3.25], 1.3), ("tadpole", 1, [1.0], 2.0),
             ("bubble0", 3, [1.0, 1.0], 1.0), ("bubble0", 4, [1.5, 1.25], 0.8), ("bubble0", 2, [0.75, 0.75], 1.1),
             ("two_tadpoles", 3, [2.0, 1.75], 1.2), ("figure_eight", 2, [1.5, 1.25], 1.0)]
    for kind, D, nus, m in specs:
        if kind == "tadpole":
            edges = [[0, 0, True, f2b(nus[0])]]
            sig = [[1]]
            val = tad(nus[0], m, D)
        elif kind == "bubble0":
            edges = [[0, 1, True, f2b(nus[0])], [0, 1, True, f2b(nus[1])]]
            sig = [[1], [-1]]
            val = tad(nus[0] + nus[1], m, D)
        elif kind == "two_tadpoles":
            edges = [[0, 0, True, f2b(nus[0])], [5, 5, True, f2b(nus[1])]]
            sig = [[1, 0], [0, 1]]
            val = tad(nus[0], m, D) * tad(nus[1], m, D)
        else:   # two tadpoles on one vertex (figure eight)
            edges = [[0, 0, True, f2b(nus[0])], [0, 0, True, f2b(nus[1])]]
            sig = [[1, 0], [0, 1]]
            val = tad(nus[0], m, D) * tad(nus[1], m, D)
        ed = [dict(mass=f2b(m), shift=[f2b(0.0)] * D) for _ in edges]
        out.append((dict(edges=edges, externals=[], D=D, signature=sig, edge_data=ed, stability=None, debug=False, metadata=False,
                         n=n, seed=rng.u64(), kind=kind), val))
    return out


def run(rep, rng, tier, replay=None):
    extra = [replay["chosen"]["case"]] if replay and replay.get("chosen", {}).get("case") and "point" in replay["chosen"]["case"] else []
    got = SC.standard_run(rep, rng, tier, "C01", ["jacobian", "loop_momenta", "u", "v", "lambda", "q_vectors", "x"], 1e-9, n_quick=90, n_thorough=700,
                          nontrivial=lambda c: c["L"] >= 2 or any(ed["mass"] is not None for ed in c["edge_data"]) or c["D"] != 3,
                          extra_cases=extra, emax=7 if tier == "quick" else 8)
    broke = any(v["kind"] == "correspondence" for v in rep.violations)
    n_exact = n_energy = n_trop = 0
    mpmath.mp.dps = 30
    for c, fi, m, o, timpl in got:
        # pointwise search: a weight that differs from the theorem-backed model weight is a failing input
        if not rel_close(b2f(fi["jacobian"]), b2f(m["jacobian"]), 1e-9) and math.isfinite(b2f(m["jacobian"])):
            rep.violation("property", "sample weight %r differs from the model weight %r (weight x proposal density is no longer the Feynman integrand)" % (
                b2f(fi["jacobian"]), b2f(m["jacobian"])), case=c, failing_input=True, what="pointwise weight differs from the model")
        # the constants of the weight and of the proposal: J table (sector probabilities) and I_tr Gamma(dod)/prod Gamma(w) pi^(DL/2) vs exact arithmetic
        c04.check_exact(rep, c, timpl, False)
        # independent of the model: weight = normalisation x U(x)^(-D/2) x V(x)^(-dod) with the EXACT Symanzik polynomials at the returned parameters
        nn = SC.case_numbers(c)
        xf = SC.floats(fi["x"])
        if all(math.isfinite(t) and t > 0 for t in xf):
            x = [Fr(t) for t in xf]
            Vx, ratio, Lm, _, _ = X.v_poly(x, nn["sig"], [[Fr(t) for t in sh] for sh in nn["shifts"]], [Fr(mm) for mm in nn["masses"]])
            Ux, kap = X.det(Lm), X.cond_estimate(Lm)
            if ratio is not None and kap is not None and ratio * kap <= Fr(10) ** 7 and Vx > 0 and Ux > 0:
                D, dod, fac = c["D"], b2f(timpl["dod"]), b2f(timpl["factor_bits"])
                ex = mpmath.mpf(fac) * (mpmath.mpf(Ux.numerator) / Ux.denominator) ** (-mpmath.mpf(D) / 2) * (mpmath.mpf(Vx.numerator) / Vx.denominator) ** (-mpmath.mpf(dod))
                n_exact += 1
                if not rel_close(b2f(fi["jacobian"]), float(ex), 1e-10 * float(ratio * kap) * (4 + D + abs(dod))):
                    rep.violation("property", "sample weight %r, but normalisation x U^(-D/2) x V^(-dod) with the exact Symanzik polynomials at the returned Feynman parameters = %r "
                                  "(V = sum x(m^2+p^2) - u^T L^-1 u in rationals)" % (b2f(fi["jacobian"]), float(ex)), case=c, failing_input=True,
                                  what="weight is not the Feynman integrand over the proposal density")
        # the tropical measure the sectors are drawn from: u_trop = v_trop = 1 is returned, so the TRUE tropical polynomials (largest
        # monomials of U and F, brute force) at the returned parameters must satisfy U_tr^(D/2) V_tr^dod = 1
        xf2 = SC.floats(fi["x"])
        ext_ = set(c["externals"])
        allv_ = {v for pr in nn["pairs"] for v in pr}
        if (len(xf2) <= 7 and all(math.isfinite(t) and t > 0 for t in xf2) and ext_ <= allv_
                and (len(ext_) >= 2 or (len(ext_) == 0 and any(e[2] for e in c["edges"])))):
            xq = [Fr(t) for t in xf2]
            trees = G.spanning_trees(nn["pairs"])
            Ut = max((math.prod([xq[e] for e in range(len(xq)) if e not in T], start=Fr(1)) for T in trees), default=None)
            Fm = c07.f_monomial_max(c, xq, trees)
            if Ut is not None and Fm is not None:
                D_, dod_ = c["D"], b2f(timpl["dod"])
                val = float(Ut) ** (D_ / 2.0) * float(Fm / Ut) ** dod_
                n_trop += 1
                if math.isfinite(val) and not rel_close(val, 1.0, 1e-8 * (2 + D_ + abs(dod_))):
                    rep.violation("property", "u_trop = v_trop = 1 are returned, but the largest monomials of U and F at the returned Feynman parameters give "
                                  "U_tr^(D/2) V_tr^dod = %r: the weight is not (U_tr/U)^(D/2) (V_tr/V)^dod x normalisation" % val, case=c, failing_input=True,
                                  what="tropical normalisation of the returned parameters fails")
        # the Gaussian part of the proposal density: at the returned loop momenta the exponent sum_e x_e(|q_e|^2+m_e^2) must equal
        # v (1 + |q|^2/(2 lambda))  (T1; exact rationals on the implementation's outputs) -- otherwise g(k) is averaged against another density
        if "shift" in fi and fi.get("loop_momenta") is not None:
            res = c10.energy_and_shift(c, fi)
            if res is not None:
                n_energy += 1
                if res[0]:
                    rep.violation("property", "the returned loop momenta are not distributed with the density the weight compensates: " + "; ".join(res[0][:2]),
                                  case=c, failing_input=True, what="energy identity fails: weight x density is not the integrand")
        rep.sample(dict(graph=c["family"], L=c["L"], D=c["D"], jacobian=b2f(fi["jacobian"])))
    # aggregate: closed forms
    cf = closed_form_cases(rng, tier)
    res = harness("integrate", dict(cases=[c for c, _ in cf]), timeout=900)["results"]
    agg = []
    for (c, val), o in zip(cf, res):
        if "n" not in o:
            rep.violation("machinery", "integrate: %s" % str(o)[:200], case=c)
            continue
        n = o["n"]
        mean = b2f(o["sum"]) / n
        var = max(b2f(o["sumsq"]) / n - mean * mean, 0.0)
        se = math.sqrt(var / n)
        z = (mean - float(val)) / se if se > 0 else 0.0
        agg.append(dict(kind=c["kind"], D=c["D"], mean=mean, exact=float(val), stderr=se, z=z))
        rep.count(["aggregate", c["kind"], c["D"], c["seed"]], True)
        # 8 sigma AND 1% : cannot trigger on a healthy tree; after a correspondence break 5 sigma suffices
        thr = 5.0 if broke else 8.0
        if abs(z) > thr and abs(mean / float(val) - 1) > (0.002 if broke else 0.01):
            rep.violation("property", "mean of jacobian over %d points = %r +- %r, closed form %r (%s, D=%d): %.1f sigma" % (n, mean, se, float(val), c["kind"], c["D"], z),
                          case=c, failing_input=True, what="estimator biased against a closed-form Feynman integral")
        if o["errors"]:
            # an error is legitimate where the Gamma quantile is below 1e-13 (C12): probability P(dod, 1e-13) per sample
            dod_c = sum(b2f(e[3]) for e in c["edges"]) - c["D"] * len(c["signature"][0]) / 2.0
            rate = float(mpmath.gammainc(dod_c, 0, 1e-13, regularized=True)) if dod_c > 0 else 1.0
            if o["errors"] > 5 + 10 * n * rate:
                rep.violation("property", "%d of %d samples of an accepted massive graph returned an error (at most about %.2g are explained by a Gamma quantile below 1e-13)" % (
                    o["errors"], n, n * rate), case=c, failing_input=True)
    rep.cov["aggregate"] = agg
    rep.cov["weights_checked_against_exact_symanzik_polynomials"] = n_exact
    rep.cov["loop_momenta_checked_against_exact_energy_identity"] = n_energy
    rep.cov["tropical_normalisation_checked_by_brute_force"] = n_trop
    rep.cov["rule"] = ("pointwise: accepted connected graphs (all families, masses, shifts, 1..4 loops, D=1..6, random cycle bases); weight, loop momenta and every intermediate of the "
                       "implementation vs the Coq model of the whole pipeline (1e-9); the sampler's J table and normalisation constant vs exact rationals / 50 digits; the weight vs normalisation x U^(-D/2) V^(-dod) with U, V exact rationals at the returned parameters "
                       "(tolerance 1e-10 x exact kappa x cancellation; beyond 1e7 skipped); aggregate: massive tadpoles (4 parameter sets), equal-mass bubbles at zero momentum, products "
                       "of tadpoles - mean of jacobian over %s pseudo-random points vs the closed form pi^(D/2) Gamma(nu-D/2)/Gamma(nu) m^(D-2nu) (alarm only beyond 8 sigma and 1%%). "
                       "non-trivial = L>=2 or a massive edge or D != 3" % ("4e4" if tier == "quick" else "4e5"))
    rep.assumptions.append("the integral identity itself (Schwinger parametrisation, change of variables, laws of inverse-CDF and Box-Muller) is not formalised: no measure theory is installed")
