# C10 -- loop momenta: Gaussian map, covariance (V/2 lambda) L^-1, centre -L^-1 u.
from common import *
import graphs as G, samplecorr as SC, exact as X
from fractions import Fraction as Fr


def energy_and_shift(c, fi):
    """exact-rational oracle on the implementation's outputs: returns None when the case is outside the property's
    quantifier (degenerate or ill conditioned), else (bad messages, sample info)"""
    n = SC.case_numbers(c)
    D, L, E = c["D"], c["L"], n["E"]
    allv = SC.floats(fi["x"]) + SC.floats(fi["loop_momenta"]) + SC.floats(fi["q_vectors"]) + [b2f(fi["lambda"]), b2f(fi["v"])]
    if not all(math.isfinite(t) for t in allv) or b2f(fi["v"]) <= 0 or not all(t > 0 for t in SC.floats(fi["x"])):
        return None          # degenerate kinematics (V = 0) or over/underflowed parameters: outside the property's quantifier
    x = [Fr(b2f(v)) for v in fi["x"]]
    lam = Fr(b2f(fi["lambda"]))
    q = [Fr(v) for v in SC.floats(fi["q_vectors"])]
    k = [Fr(v) for v in SC.floats(fi["loop_momenta"])]
    v = Fr(b2f(fi["v"]))
    shifts = [[Fr(s) for s in sh] for sh in n["shifts"]]
    masses = [Fr(mm) for mm in n["masses"]]
    Lx = X.l_matrix(x, n["sig"])
    kappa = X.cond_estimate(Lx)
    vex, ratio, _, inv, us = X.v_poly(x, n["sig"], shifts, masses)
    if kappa is None or kappa > Fr(10) ** 8 or ratio is None or ratio > Fr(10) ** 8 or lam <= 0:
        return None
    # energy identity: sum_e x_e (|q_e|^2 + m_e^2) = v (1 + |q|^2 / (2 lambda)),  q_e = sum_l S_el k_l + p_e
    lhs = Fr(0)
    for e in range(E):
        qe = [sum(n["sig"][e][l] * k[l * D + d] for l in range(L)) + shifts[e][d] for d in range(D)]
        lhs += x[e] * (sum(t * t for t in qe) + masses[e] ** 2)
    rhs = v * (1 + sum(t * t for t in q) / (2 * lam))
    tol = 1e-10 * float(kappa) * float(ratio)
    bad = []
    if not rel_close(float(lhs), float(rhs), max(tol, 1e-10)):
        bad.append("sum x_e(|q_e|^2+m_e^2) = %r but v(1+|q|^2/(2 lambda)) = %r [kappa %.3g]" % (float(lhs), float(rhs), float(kappa)))
    # shift = L^-1 u
    sh = SC.floats(fi["shift"])
    for l in range(L):
        for d in range(D):
            ex = sum(inv[l][j] * us[j][d] for j in range(L))
            scale = float(sum(abs(inv[l][j] * us[j][d]) for j in range(L))) + 1e-300
            if abs(sh[l * D + d] - float(ex)) > 1e-11 * float(kappa) * scale:
                bad.append("shift[%d][%d] = %r, (L^-1 u) = %r" % (l, d, sh[l * D + d], float(ex)))
    return bad, dict(family=c["family"], L=L, D=D, lambda_=float(lam), energy_lhs=float(lhs), energy_rhs=float(rhs))


def run(rep, rng, tier, replay=None):
    extra = [replay["chosen"]["case"]] if replay and replay.get("chosen", {}).get("case") else []
    got = SC.standard_run(rep, rng, tier, "C10", ["loop_momenta", "shift"], 1e-9, n_quick=70, n_thorough=500,
                          nontrivial=lambda c: c["L"] >= 2, extra_cases=extra, emax=7 if tier == "quick" else 8)
    # stage isolation: the model's momentum stage fed with the implementation's own x, lambda, q
    exprs, keep = [], []
    for c, fi, m, o, timpl in got:
        D, L = c["D"], c["L"]
        qs = SC.floats(fi["q_vectors"])
        exprs.append("(render_momenta %d %s %s %d %s %s %s)" % (
            D, coq_flist(SC.floats(fi["x"])), SC.coq_sig(c["signature"]), L, SC.coq_edata(c["edge_data"]),
            coq_float(b2f(fi["lambda"])), coq_list([coq_flist(qs[l * D:(l + 1) * D]) for l in range(L)])))
        keep.append((c, fi))
    stage = run_model("C10stage", [], SC.TC.PRELUDE, exprs, batch=20)
    for (c, fi), r in zip(keep, stage):
        D, L = c["D"], c["L"]
        if r[0] != 0:
            rep.violation("correspondence", "momentum stage of the model failed on the implementation's own x", case=c)
            continue
        ks = r[2 + L * D: 2 + 2 * L * D]
        sh = r[2 + 2 * L * D: 2 + 3 * L * D]
        msgs = SC.cmp_field("loop_momenta(stage)", fi["loop_momenta"], ks, 1e-10) + SC.cmp_field("shift(stage)", fi["shift"], sh, 1e-10)
        if msgs:
            rep.violation("correspondence", "; ".join(msgs[:3]), case=c)
    skipped = 0
    for c, fi, m, o, timpl in got:
        res = energy_and_shift(c, fi)
        if res is None:
            skipped += 1
            continue
        bad, info = res
        if bad:
            rep.violation("property", "; ".join(bad[:3]), case=c, failing_input=True, what="energy identity / shift fails on the returned loop momenta")
        rep.sample(info)
    rep.cov["skipped_ill_conditioned"] = skipped
    rep.cov["rule"] = ("accepted connected graphs with 1..4 loops, D=1..6, masses and shifts; loop_momenta and shift vs the whole-pipeline model and vs the model's momentum "
                       "stage fed with the implementation's own x, lambda, q; then the energy identity and shift = L^-1 u in exact rationals on the implementation's outputs "
                       "(tolerance 1e-10*kappa*cancellation; above 1e8 skipped). non-trivial = L>=2")
