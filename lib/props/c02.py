# C02 -- sample weights are bounded by graph- and kinematics-only constants.
from common import *
import graphs as G, samplecorr as SC, exact as X
from fractions import Fraction as Fr
import importlib
c09 = importlib.import_module("props.c09")


def f_polynomial(pairs, ext, masses):
    """coefficients of F as a polynomial in x: dict exponent-tuple -> coefficient (exact)"""
    E = len(pairs)
    coef = {}
    D = len(next(iter(ext.values())))
    for F, side in X.two_forests(pairs):
        p = [sum(ext.get(v, [Fr(0)] * D)[d] for v in side) for d in range(D)]
        s = sum(c * c for c in p)
        if s == 0:
            continue
        mono = tuple(0 if e in F else 1 for e in range(E))
        coef[mono] = coef.get(mono, Fr(0)) + s
    trees = G.spanning_trees(pairs)
    for T in trees:
        for e in range(E):
            if masses[e] != 0:
                mono = [0 if f in T else 1 for f in range(E)]
                mono[e] += 1
                coef[tuple(mono)] = coef.get(tuple(mono), Fr(0)) + masses[e] ** 2
    return coef, trees


def run(rep, rng, tier, replay=None):
    extra = [replay["chosen"]["case"]] if replay and replay.get("chosen", {}).get("case") else []
    n = 60 if tier == "quick" else 500
    for i in range(n):
        r = rng.fork()
        c = c09.conserving_case(r, 6, consistent=True)
        E = len(c["edges"])
        # corners of the hypercube and sectors of tiny probability, on purpose
        k = i % 4
        if k == 1:
            for j in range(E - 1):
                c["point"][2 * j + 1] = f2b(r.choice([1e-12, 1e-6, 1 - 1e-12, 0.5]))
        elif k == 2:
            for j in range(E - 1):
                c["point"][2 * j] = f2b(r.choice([1e-15, 1 - 2.0**-53, r.unit()]))
        extra.append(c)
    got = SC.standard_run(rep, rng, tier, "C02", ["u", "v", "jacobian", "utrop_pre", "vtrop_pre"], 1e-9, n_quick=0, n_thorough=0,
                          nontrivial=lambda c: c["L"] >= 2 or any(ed["mass"] is not None for ed in c["edge_data"]), extra_cases=extra, emax=6)
    skipped = 0
    worst = dict(lo=None, hi=None)

    def judge(lst):
        nonlocal skipped
        for c, fi, m, o, timpl in lst:
            judge_one(c, fi, timpl)

    def judge_one(c, fi, timpl):
        nonlocal skipped
        for _once in (0,):
            n_ = SC.case_numbers(c)
            E, D, L = n_["E"], n_["D"], n_["L"]
            if "ext_mom" not in c or E > 7:
                continue
            if not all(math.isfinite(b2f(v)) and b2f(v) > 0 for v in fi["x"]):
                skipped += 1          # parameters over/underflowed: f64 range, not the bound, is exceeded
                continue
            x = [Fr(b2f(v)) for v in fi["x"]]
            masses = [Fr(mm) for mm in n_["masses"]]
            shifts = [[Fr(s) for s in sh] for sh in n_["shifts"]]
            ext = {int(k): [Fr(q) for q in mom] for k, mom in c["ext_mom"].items()}
            # "generic Euclidean kinematics": no proper non-empty subset of the external momenta may sum to zero (otherwise a monomial of F
            # that the graph-theoretic V_tr counts on has coefficient zero); such draws are outside the quantifier
            evs = sorted(ext)
            generic = True
            for mask in range(1, (1 << len(evs)) - 1):
                tot = [sum(ext[evs[i]][d] for i in range(len(evs)) if mask >> i & 1) for d in range(D)]
                if all(t == 0 for t in tot):
                    generic = False
                    break
            if not generic:
                skipped += 1
                continue
            coef, trees = f_polynomial(n_["pairs"], ext, masses)
            NT = len(trees)
            Vx, ratio, Lm, _, _ = X.v_poly(x, n_["sig"], shifts, masses)
            if not coef or ratio is None or ratio > Fr(10) ** 8 or Vx <= 0:
                skipped += 1
                continue
            kapL = X.cond_estimate(Lm)
            if kapL is None or ratio * kapL > Fr(10) ** 8:
                skipped += 1          # V = sum x(m^2+p^2) - u^T L^-1 u is conditioned by kappa(L) x cancellation: beyond 1e8 the property does not quantify
                continue
            cmin, csum = min(coef.values()), sum(coef.values())

            def mono_val(mono):
                v = Fr(1)
                for e, k in enumerate(mono):
                    v *= x[e] ** k
                return v
            Utr = max(mono_val(tuple(0 if e in T else 1 for e in range(E))) for T in trees)
            Ftr = max(mono_val(mn) for mn in coef)
            Vtr = Ftr / Utr
            if not all(math.isfinite(b2f(t)) and b2f(t) > 0 for t in [fi["u"], fi["v"], fi["jacobian"]]):
                # the parameters are finite and positive and the exact V is well conditioned: U, V and the weight must be positive numbers
                rep.violation("property", "returned u = %r, v = %r, jacobian = %r are not all finite and positive although U_tr = %r, V_tr = %r, exact V = %r (cancellation %.3g)" % (
                    b2f(fi["u"]), b2f(fi["v"]), b2f(fi["jacobian"]), float(Utr), float(Vtr), float(Vx), float(ratio)), case=c, failing_input=True,
                    what="Symanzik/tropical bounds violated (non-positive or non-finite value)")
                continue
            u, v = Fr(b2f(fi["u"])), Fr(b2f(fi["v"]))
            slack = Fr(1) + Fr(1, 10**9) * max(Fr(1), ratio)
            bad = []
            if not (Utr <= u * slack and u <= NT * Utr * slack):
                bad.append("U_tr <= U <= N_T U_tr fails: U_tr=%r U=%r N_T=%d" % (float(Utr), float(u), NT))
            if not (cmin / NT * Vtr <= v * slack and v <= csum * Vtr * slack):
                bad.append("(c_min/N_T) V_tr <= V <= C_sum V_tr fails: V_tr=%r V=%r c_min=%r C_sum=%r N_T=%d" % (float(Vtr), float(v), float(cmin), float(csum), NT))
            dod = b2f(timpl["dod"])
            fac = b2f(timpl["factor_bits"])
            if math.isfinite(fac) and fac > 0 and dod > 0:
                ratio_ret = b2f(fi["jacobian"]) / fac
                lo = float(NT) ** (-D / 2.0) * float(csum) ** (-dod)
                hi = (float(NT) / float(cmin)) ** dod
                if not (lo * (1 - 1e-7) <= ratio_ret <= hi * (1 + 1e-7)):
                    bad.append("jacobian/normalisation = %r outside [N_T^(-D/2) C_sum^(-dod), (N_T/c_min)^dod] = [%r, %r]" % (ratio_ret, lo, hi))
                worst["lo"] = min(worst["lo"], ratio_ret / lo) if worst["lo"] is not None else ratio_ret / lo
                worst["hi"] = max(worst["hi"], ratio_ret / hi) if worst["hi"] is not None else ratio_ret / hi
            # the returned tropical values are the tropical polynomials at the sampled parameters (rescaled gauge: both 1)
            if not rel_close(float(Utr) ** (D / 2.0) * float(Vtr) ** dod, 1.0, 1e-8 * (1 + D + abs(dod))):
                bad.append("U_tr^(D/2) V_tr^dod at the sampled parameters = %r, expected 1 (u_trop = v_trop = 1 are returned)" % (float(Utr) ** (D / 2.0) * float(Vtr) ** dod))
            if bad:
                rep.violation("property", "; ".join(bad[:3]), case=c, failing_input=True, what="Symanzik/tropical bounds violated")
            rep.sample(dict(graph=c["family"], N_T=NT, c_min=float(cmin), C_sum=float(csum), U_over_Utr=float(u / Utr), V_over_Vtr=float(v / Vtr)))
    judge(got)
    # search after a break: where the returned u or v left the model, move the case to corner points (xi coordinates at 1e-3, 1e-6),
    # where one monomial dominates and the two-sided bounds are tight, and judge the implementation there
    broken = [(c, fi) for c, fi, m, o, timpl in got if "ext_mom" in c and len(c["edges"]) <= 7 and math.isfinite(b2f(m["u"])) and math.isfinite(b2f(m["v"]))
              and (not rel_close(b2f(fi["u"]), b2f(m["u"]), 1e-6) or not rel_close(b2f(fi["v"]), b2f(m["v"]), 1e-6))]
    if broken and not any(v_["kind"] == "property" for v_ in rep.violations):
        variants = []
        for c, fi in broken[:6]:
            for _ in range(6):
                variants.append(SC.cornerize(rng.fork(), json.loads(json.dumps(c)), exps=(2, 3, 4, 6)))
        got2 = []
        res2 = SC.run_samples("C02search", variants)
        for c2, x2 in zip(variants, res2):
            o2 = x2["impl"]
            if "f64" not in o2:
                continue
            f2 = SC.impl_fields(o2["f64"])
            if f2["tag"] == "ok":
                got2.append((c2, f2, x2["model"], o2, x2["table"]))
        judge(got2)
        rep.cov["search_after_break_cases"] = len(got2)
    rep.cov["skipped_cancellation_above_1e8_or_non_generic_kinematics"] = skipped
    rep.cov["closest_approach_to_bounds(ratio/lower, ratio/upper)"] = worst
    rep.cov["rule"] = ("accepted connected graphs with momentum-conserving generic kinematics (external momenta on all vertices), masses on massive edges; a quarter of the points with "
                       "xi coordinates at 1e-12/1e-6/1-1e-12 and a quarter with edge draws at 1e-15 / 1-2^-53 (corners, low-probability sectors); u, v, jacobian, tropical values vs "
                       "the Coq model; then with exact N_T (spanning-tree count), c_min, C_sum (coefficients of F by brute force over 2-forests and mass terms): both two-sided "
                       "bounds and the interval for jacobian/normalisation; points whose exact cancellation ratio of V exceeds 1e8 are skipped as the property says. "
                       "non-trivial = L>=2 or a massive edge")
