# C08 -- returned U is the first Symanzik polynomial of the graph.
from common import *
import graphs as G, samplecorr as SC, exact as X
from fractions import Fraction as Fr


def run(rep, rng, tier, replay=None):
    extra = [replay["chosen"]["case"]] if replay and replay.get("chosen", {}).get("case") else []
    # corner points: one or two xi coordinates at 1e-3 .. 1e-12 (tiny kappas; condition numbers of L up to the limit the property sets)
    extra += [SC.cornerize(rng.fork(), SC.gen_sample_case(rng.fork(), emax=7 if tier == "quick" else 8), exps=(4, 5, 6, 7, 8, 9, 10)) for _ in range(60 if tier == "quick" else 300)]
    got = SC.standard_run(rep, rng, tier, "C08", ["l_matrix", "determinant", "u"], 1e-11, n_quick=70, n_thorough=500,
                          nontrivial=lambda c: c["L"] >= 2, extra_cases=extra, emax=7 if tier == "quick" else 8)
    rebase = []
    nsearch = 0
    for c, fi, m, o, timpl in got:
        n = SC.case_numbers(c)
        if not all(math.isfinite(b2f(v)) and b2f(v) > 0 for v in fi["x"]):
            continue              # Feynman parameters over/underflowed: outside the property's quantifier (condition number unbounded)
        x = [Fr(b2f(v)) for v in fi["x"]]
        L = n["L"]
        lm = SC.floats(fi["l_matrix"])
        # symmetric, entries sum_e x_e s_ei s_ej
        Lx = X.l_matrix(x, n["sig"])
        bad = []
        for i in range(L):
            for j in range(L):
                if f2b(lm[i * L + j]) != f2b(lm[j * L + i]):
                    bad.append("l_matrix not symmetric at (%d,%d)" % (i, j))
                if not rel_close(lm[i * L + j], float(Lx[i][j]), 1e-13, 1e-13 * float(sum(abs(v) for v in x))):
                    bad.append("l_matrix[%d][%d] = %r, sum_e x_e s_ei s_ej = %r" % (i, j, lm[i * L + j], float(Lx[i][j])))
        kappa = X.cond_estimate(Lx)
        U, nT = X.u_by_trees(n["pairs"], x)
        if kappa is not None and kappa < Fr(10) ** 10:
            tol = 1e-11 * max(1.0, float(kappa))
            if not rel_close(b2f(fi["u"]), float(U), tol):
                bad.append("u = %r but the spanning-tree sum (%d trees) is %r [kappa=%.3g]" % (b2f(fi["u"]), nT, float(U), float(kappa)))
        elif kappa is not None and nsearch < 6 and math.isfinite(b2f(m["u"])) and not rel_close(b2f(fi["u"]), b2f(m["u"]), 1e-6):
            # beyond the condition numbers the property quantifies over the implementation has left the model: walk the tiny xi
            # coordinates back towards moderate values until kappa(L) is inside the range, and apply the exact oracle there
            nsearch += 1
            E_ = len(c["edges"])
            for t_ in (0.85, 0.7, 0.55, 0.4):
                c3 = json.loads(json.dumps(c))
                for i_ in range(1, 2 * E_ - 2, 2):
                    v_ = b2f(c3["point"][i_])
                    if v_ < 1e-3:
                        c3["point"][i_] = f2b(v_ ** t_)
                o3 = harness("sample", dict(cases=[c3]), timeout=120)["results"][0]
                f3 = SC.impl_fields(o3["f64"]) if "f64" in o3 else dict(tag="panic")
                if f3.get("tag") != "ok" or not all(math.isfinite(b2f(v_)) and b2f(v_) > 0 for v_ in f3["x"]):
                    continue
                x3 = [Fr(b2f(v_)) for v_ in f3["x"]]
                k3 = X.cond_estimate(X.l_matrix(x3, n["sig"]))
                if k3 is None or k3 >= Fr(10) ** 10:
                    continue
                U3, nT3 = X.u_by_trees(n["pairs"], x3)
                if not rel_close(b2f(f3["u"]), float(U3), 1e-11 * max(1.0, float(k3))):
                    rep.violation("property", "searched from a sample outside the conditioning range: u = %r but the spanning-tree sum (%d trees) is %r [kappa=%.3g]" % (
                        b2f(f3["u"]), nT3, float(U3), float(k3)), case=c3, failing_input=True, what="U differs from the first Symanzik polynomial")
                    break
        if bad:
            rep.violation("property", "; ".join(bad[:3]), case=c, failing_input=True, what="U differs from the first Symanzik polynomial")
        rep.sample(dict(family=c["family"], L=L, D=c["D"], u=b2f(fi["u"]), trees=nT, signature=c["signature"]))
        if L >= 1 and len(rebase) < (15 if tier == "quick" else 100):
            rebase.append((c, fi))
    # independence of the cycle basis: same graph and point, another unimodular basis and orientation
    cases2 = []
    for c, fi in rebase:
        r = rng.fork()
        c2 = json.loads(json.dumps(c))
        M = G.random_unimodular(r, c["L"], steps=3)
        sig = G.change_basis(c["signature"], M)
        flips = [r.chance(0.4) for _ in sig]
        c2["signature"] = [[-v for v in row] if fl else row for row, fl in zip(sig, flips)]
        for ed, fl in zip(c2["edge_data"], flips):
            if fl:
                ed["shift"] = [f2b(-b2f(v)) for v in ed["shift"]]
        cases2.append(c2)
    if cases2:
        res2 = harness("sample", dict(cases=cases2), timeout=600)["results"]
        for (c, fi), c2, o2 in zip(rebase, cases2, res2):
            f2 = SC.impl_fields(o2["f64"]) if "f64" in o2 else dict(tag="panic")
            rep.count(["rebase", c2["edges"], c2["signature"], c2["point"]], c["L"] >= 2)
            x = [Fr(b2f(v)) for v in fi["x"]]
            k1, k2 = X.cond_estimate(X.l_matrix(x, c["signature"])), X.cond_estimate(X.l_matrix(x, c2["signature"]))
            if k1 is None or k2 is None or max(k1, k2) > Fr(10) ** 8:
                continue          # beyond the condition numbers the property quantifies over (a pivot may round to <= 0 there)
            if f2["tag"] != "ok":
                rep.violation("property", "sampling fails after a unimodular change of cycle basis (kappa %.3g): %s" % (float(max(k1, k2)), str(f2)[:200]), case=c2, failing_input=True)
            elif not rel_close(b2f(f2["u"]), b2f(fi["u"]), 1e-11 * float(max(k1, k2))):
                rep.violation("property", "u depends on the cycle basis: %r vs %r" % (b2f(fi["u"]), b2f(f2["u"])), case=c2, failing_input=True)
    rep.cov["rule"] = ("accepted connected graphs with 1..4 loops from the named families, fundamental cycle basis followed by a random unimodular basis change "
                       "and orientation flips; l_matrix and u vs the Coq model (1e-11) and vs exact rationals: entries, symmetry (bit-exact), spanning-tree sum "
                       "(tolerance 1e-11*kappa_inf(L), kappa exact; skipped above 1e10); then u under a second basis. non-trivial = L>=2")
