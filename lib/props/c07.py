# C07 -- Feynman parameters follow the sector formula and the tropical normalisation.
from common import *
import graphs as G, samplecorr as SC, exact as X, tablecorr as TC
from fractions import Fraction as Fr
import mpmath


def f_monomial_max(c, x, trees):
    """largest monomial of F with a non-zero coefficient for generic kinematics:
    2-forests separating the declared external vertices non-trivially, and x_e * (monomial of U) for massive e"""
    pairs = [(e[0], e[1]) for e in c["edges"]]
    E = len(pairs)
    ext = set(c["externals"])
    best = None
    for T in trees:
        mono_T = Fr(1)
        for e in range(E):
            if e not in T:
                mono_T *= x[e]
        for e in range(E):
            if c["edges"][e][2]:                       # massive edge: m_e^2 x_e U
                v = mono_T * x[e]
                best = v if best is None or v > best else best
        for e in T:                                    # cut a tree edge: a 2-forest
            F = [f for f in T if f != e]
            comps, _ = G.uf_components(pairs, F)
            vs_in = [{v for f in comp for v in pairs[f]} for comp in comps]
            # vertices of the whole graph not covered by F edges are isolated trees
            allv = {v for p in pairs for v in p}
            covered = set().union(*vs_in) if vs_in else set()
            sides = vs_in + [{v} for v in allv - covered]
            if len(sides) != 2:
                continue
            a = ext & sides[0]
            b = ext & sides[1]
            if a and b and (ext - sides[0] - sides[1]) == set():
                v = mono_T * x[e]
                best = v if best is None or v > best else best
    return best


def tropical_normalisation(c, xs, dod):
    """U_tr^(D/2) V_tr^dod with the TRUE tropical polynomials (largest monomials of U and F, brute force, exact) at the parameters
    xs; None when the case has no generic kinematics (see run) or E > 7"""
    pairs = [(e[0], e[1]) for e in c["edges"]]
    ext = set(c["externals"])
    allv = {v for pr in pairs for v in pr}
    if not (len(xs) <= 7 and all(math.isfinite(t) and t > 0 for t in xs) and ext <= allv
            and (len(ext) >= 2 or (len(ext) == 0 and any(e[2] for e in c["edges"])))):
        return None
    xq = [Fr(t) for t in xs]
    trees = G.spanning_trees(pairs)
    Ut = None
    for T in trees:
        pr_ = Fr(1)
        for e in range(len(xq)):
            if e not in T:
                pr_ *= xq[e]
        Ut = pr_ if Ut is None or pr_ > Ut else Ut
    Fm = f_monomial_max(c, xq, trees)
    if Ut is None or Fm is None:
        return None
    return float(Ut) ** (c["D"] / 2.0) * float(Fm / Ut) ** dod


def sector_mismatch(c, fi, order, tabx, timpl):
    """sector formula with the exact omega along the removal order; returns a message or None"""
    n = SC.case_numbers(c)
    E, D, L = n["E"], n["D"], n["L"]
    pt = n["point"]
    xpre = SC.floats(fi["x_pre"])
    W = [mpmath.mpf(t_[2].numerator) / t_[2].denominator for t_ in tabx]
    delta = 8 * 2.0**-53 * (sum(abs(b2f(e_[3])) for e_ in c["edges"]) + L * D / 2.0 + abs(b2f(timpl["dod"])))
    g, prod, slack = (1 << E) - 1, mpmath.mpf(1), 0.0
    for k, e in enumerate(order):
        if not rel_close(xpre[e], float(prod), 1e-11 * (k + 1) + 4 * slack):
            return "x[%d] (removed %d-th) = %r, sector formula with the true omega gives %r" % (e, k + 1, xpre[e], float(prod))
        g ^= 1 << e
        if g:
            xi = mpmath.mpf(pt[2 * k + 1])
            prod *= xi ** (1 / W[g])
            slack += float(abs(mpmath.log(xi)) / W[g] * delta / abs(W[g]))
    return None


def search_through(rep, c, timpl, tabx, gstar):
    """the table holds a wrong omega at subset gstar: build a point whose removal path passes through gstar (edge draws in the
    middle of the intervals of the implementation's own table, xi = 1/2) and report it if the sector formula fails there"""
    import importlib
    c06 = importlib.import_module("props.c06")
    E = len(c["edges"])
    full = (1 << E) - 1
    first = [e for e in range(E) if not gstar >> e & 1]
    rest = [e for e in range(E) if gstar >> e & 1]
    order = first + rest
    c2 = json.loads(json.dumps(c))
    pt = [0.5] * len(c2["point"])
    g = full
    for k, e in enumerate(order[:-1]):
        ps = c06.prefix_sums(timpl, g)
        lo = 0.0
        for (ee, h, cum) in ps:
            if ee == e:
                pt[2 * k] = (lo + cum) / 2
                break
            lo = cum
        g ^= 1 << e
    c2["point"] = [f2b(v) for v in pt]
    o = harness("sample", dict(cases=[c2]), timeout=120)["results"][0]
    f2 = SC.impl_fields(o["f64"]) if "f64" in o else dict(tag="panic")
    if f2.get("tag") != "ok" or not f2.get("x_pre"):
        return False
    xp = SC.floats(f2["x_pre"])
    got_order = sorted(range(E), key=lambda e: -xp[e])
    msg = sector_mismatch(c2, f2, got_order, tabx, timpl)
    if msg:
        rep.violation("property", "searched for a removal path through subset %d, whose omega in the implementation's table is wrong: %s" % (gstar, msg),
                      case=c2, failing_input=True, what="sector formula fails on a constructed point")
        return True
    return False


def run(rep, rng, tier, replay=None):
    extra = [replay["chosen"]["case"]] if replay and replay.get("chosen", {}).get("case") else []
    # corner points: one or two xi coordinates at 1e-3 .. 1e-12 (tiny kappas; condition numbers of L up to the limit the property sets)
    extra += [SC.cornerize(rng.fork(), SC.gen_sample_case(rng.fork(), emax=6 if tier == "quick" else 7)) for _ in range(30 if tier == "quick" else 200)]
    got = SC.standard_run(rep, rng, tier, "C07", ["x_pre", "x", "utrop_pre", "vtrop_pre"], 1e-11, n_quick=70, n_thorough=500,
                          nontrivial=lambda c: len(c["edges"]) >= 3, extra_cases=extra, emax=6 if tier == "quick" else 7)
    mpmath.mp.dps = 40
    gap = dict(vtrop_checked=0, vtrop_skipped=0)
    nsearch = 0
    for c, fi, m, o, timpl in got:
        n = SC.case_numbers(c)
        E, D, L = n["E"], n["D"], n["L"]
        t = None
        pt = n["point"]
        order = m["order"]
        xpre = SC.floats(fi["x_pre"])
        xs = SC.floats(fi["x"])
        tab = o.get("table_bits")
        bad = []
        if not all(math.isfinite(v) and v > 0 for v in xpre + xs):
            gap["underflow_skipped"] = gap.get("underflow_skipped", 0) + 1     # kappa under/overflowed: beyond binary64 range
            continue
        # omega(g): the TRUE generalised degrees of divergence (exact rationals from union-find), not the implementation's table
        tabx, _, _ = G.exact_table(TC.case_graph(c))
        W = [mpmath.mpf(t_[2].numerator) / t_[2].denominator for t_ in tabx]
        wrong = [g_ for g_ in range(1, len(tabx) - 1) if bin(g_).count("1") >= 1 and not rel_close(b2f(timpl["dod_bits"][g_]), float(tabx[g_][2]), 1e-9, 1e-12)]
        if wrong and nsearch < 6:
            nsearch += 1
            rep.violation("correspondence", "the implementation's table holds omega(%d) = %r, exact %s: searching for a point whose removal path passes through it" % (
                wrong[0], b2f(timpl["dod_bits"][wrong[0]]), float(tabx[wrong[0]][2])), case=c)
            for gs in wrong[:3]:
                if search_through(rep, c, timpl, tabx, gs):
                    break
        # sector formula
        g = (1 << E) - 1
        prod = mpmath.mpf(1)
        # the code holds omega(g) as a binary64 number formed by a few additions: absolute rounding error delta; its effect on
        # kappa = prod xi^(1/omega) is |ln xi| / omega * delta / omega per step (first order), accumulated in `slack`
        delta = 8 * 2.0**-53 * (sum(abs(b2f(e_[3])) for e_ in c["edges"]) + L * D / 2.0 + abs(b2f(timpl["dod"])))
        slack = 0.0
        for k, e in enumerate(order):
            if not rel_close(xpre[e], float(prod), 1e-11 * (k + 1) + 4 * slack):
                bad.append("x[%d] (removed %d-th) = %r, sector formula gives %r" % (e, k + 1, xpre[e], float(prod)))
            g ^= 1 << e
            if g:
                xi = mpmath.mpf(pt[2 * k + 1])
                prod *= xi ** (1 / W[g])
                slack += float(abs(mpmath.log(xi)) / W[g] * delta / abs(W[g]))
        if sorted(order) != list(range(E)):
            bad.append("removal order %s is not a permutation" % order)
        # common rescaling and the normalisation U_tr^(D/2) V_tr^dod = 1
        s = xs[order[0]] / xpre[order[0]]
        for e in range(E):
            if not rel_close(xs[e], s * xpre[e], 1e-13):
                bad.append("rescaling is not common to all parameters (edge %d)" % e)
        dod = b2f(timpl["dod"])
        ut, vt = b2f(fi["utrop_pre"]), b2f(fi["vtrop_pre"])
        norm = (mpmath.mpf(s) ** L * ut) ** (mpmath.mpf(D) / 2) * (mpmath.mpf(s) * vt) ** mpmath.mpf(dod)
        if not rel_close(float(norm), 1.0, 1e-10 * max(1.0, D / 2 * L + abs(dod))):
            bad.append("U_tr^(D/2) V_tr^dod after rescaling = %r, not 1" % float(norm))
        # U_tr = largest monomial of U (brute force over spanning trees, exact)
        xq = [Fr(v) for v in xpre]
        trees = G.spanning_trees(n["pairs"])
        best = None
        for T in trees:
            p = Fr(1)
            for e in range(E):
                if e not in T:
                    p *= xq[e]
            best = p if best is None or p > best else best
        if best is not None and not rel_close(ut, float(best), 1e-12 * E):
            bad.append("u_trop (pre-rescaling) = %r, largest monomial of U = %r" % (ut, float(best)))
        # V_tr * U_tr = largest monomial of F for generic kinematics (validation of the named gap)
        ext = set(c["externals"])
        allv = {v for p in n["pairs"] for v in p}
        # one declared external vertex cannot carry momentum (conservation): no generic kinematics exist, skipped
        if ext <= allv and (len(ext) >= 2 or (len(ext) == 0 and any(e[2] for e in c["edges"]))):
            fm = f_monomial_max(c, xq, trees)
            if fm is not None:
                gap["vtrop_checked"] += 1
                if not rel_close(ut * vt, float(fm), 1e-12 * E):
                    bad.append("v_trop*u_trop (pre-rescaling) = %r, largest monomial of F = %r" % (ut * vt, float(fm)))
        else:
            gap["vtrop_skipped"] += 1
        if bad:
            rep.violation("property", "; ".join(bad[:3]), case=c, failing_input=True, what="sector formula / tropical polynomial / normalisation fails")
        rep.sample(dict(family=c["family"], order=order, x_pre=xpre, u_trop_pre=ut, v_trop_pre=vt))
    rep.cov["gap_validation"] = gap
    rep.cov["rule"] = ("accepted connected graphs E<=%d, 1..4 loops, D=1..6; the four debug-log quantities vs the Coq model (1e-11); then on the implementation's outputs: sector formula "
                       "in 40-digit arithmetic with the exact omega of every subgraph on the path (rationals, union-find), common rescaling, U_tr^(D/2)V_tr^dod=1, U_tr = max monomial of U by brute force over spanning "
                       "trees (exact), V_tr*U_tr = max monomial of F for generic kinematics by brute force over 2-forests and mass terms (validation of the gap the theorem leaves). "
                       "non-trivial = E>=3" % (6 if tier == "quick" else 7))


_tcache = {}


def harness_table_cache(c):
    k = json.dumps([c["edges"], c["externals"], c["D"]])
    if k not in _tcache:
        _tcache[k] = harness("table", dict(cases=[dict(edges=c["edges"], externals=c["externals"], D=c["D"])]))["results"][0]
    return _tcache[k]
