# C19 -- user precision is preserved: only the Gamma draw narrows to f64.
from common import *
import graphs as G, samplecorr as SC, exact as X
from fractions import Fraction as Fr


def outputs(fi, o):
    """the T-valued outputs as a flat list of (name, value bits, dual part)"""
    out = []
    o = json.loads(json.dumps(o))

    def pad(x):
        return x if len(x) > 1 else [x[0], 0]
    for k in ["u", "v", "jacobian"]:
        o[k] = pad(o[k])
    o["loop_momenta"] = [[pad(cc) for cc in vec] for vec in o["loop_momenta"]]
    for k in ["inverse", "q_transposed", "q_transposed_inverse", "l_matrix"]:
        o["metadata"][k]["data"] = [pad(e) for e in o["metadata"][k]["data"]]
    o["metadata"]["u_vectors"] = [[pad(cc) for cc in vec] for vec in o["metadata"]["u_vectors"]]
    for k in ["u", "v", "jacobian"]:
        out.append((k, o[k][0], o[k][1]))
    for i, vec in enumerate(o["loop_momenta"]):
        for j, comp in enumerate(vec):
            out.append(("k[%d][%d]" % (i, j), comp[0], comp[1]))
    for k in ["inverse", "q_transposed", "q_transposed_inverse", "l_matrix"]:
        for i, ent in enumerate(o["metadata"][k]["data"]):
            out.append(("%s[%d]" % (k, i), ent[0], ent[1]))
    for i, vec in enumerate(o["metadata"]["u_vectors"]):
        for j, comp in enumerate(vec):
            out.append(("u_vec[%d][%d]" % (i, j), comp[0], comp[1]))
    return out


def run(rep, rng, tier, replay=None):
    n = 40 if tier == "quick" else 300
    cases, plus, minus, plus2, minus2 = [], [], [], [], []
    h = 2.0**-20
    for i in range(n):
        r = rng.fork()
        c = SC.gen_sample_case(r, emax=5 if tier == "quick" else 6, zero_shift_share=0.0)
        E, L, D = len(c["edges"]), c["L"], c["D"]
        dim = len(c["point"])
        c["debug"] = False
        # keep the point away from the faces so that +-h stays inside and sectors do not switch
        pt = [min(max(b2f(v), 0.05), 0.95) for v in c["point"]]
        # perturbation directions: xi coordinates and Gaussian coordinates; edge draws and the Gamma coordinate are held fixed
        pd = [0.0] * dim
        for k in range(E - 1):
            pd[2 * k + 1] = r.choice([-1.0, 0.5, 1.0])
        for k in range(2 * E - 1, dim):
            pd[k] = r.choice([-1.0, 0.5, 1.0])
        c["point"] = [f2b(v) for v in pt]
        c["point_d"] = [f2b(v) for v in pd]
        for ed in c["edge_data"]:
            if ed["mass"] is not None:
                ed["mass_d"] = f2b(r.choice([-1.0, 1.0]))
            ed["shift_d"] = [f2b(r.choice([-1.0, 0.0, 1.0])) for _ in ed["shift"]]
        cases.append(c)
        for sign, lst in ((+1, plus), (-1, minus), (+2, plus2), (-2, minus2)):
            c2 = json.loads(json.dumps(c))
            c2["point"] = [f2b(p + sign * h * d) for p, d in zip(pt, pd)]
            for ed in c2["edge_data"]:
                if ed["mass"] is not None:
                    ed["mass"] = f2b(b2f(ed["mass"]) + sign * h * b2f(ed["mass_d"]))
                ed["shift"] = [f2b(b2f(s) + sign * h * b2f(d)) for s, d in zip(ed["shift"], ed["shift_d"])]
            lst.append(c2)
    res = SC.run_samples("C19", cases)
    rp = harness("sample", dict(cases=plus), timeout=600)["results"]
    rm = harness("sample", dict(cases=minus), timeout=600)["results"]
    rp2 = harness("sample", dict(cases=plus2), timeout=600)["results"]
    rm2 = harness("sample", dict(cases=minus2), timeout=600)["results"]
    skipped = 0
    unreliable = 0
    ill = 0
    for c, x, op, om, op2, om2 in zip(cases, res, rp, rm, rp2, rm2):
        o, m = x["impl"], x["model"]
        E, L, D = len(c["edges"]), c["L"], c["D"]
        fi = SC.impl_fields(o["f64"])
        rep.count([c["edges"], c["point"], c["point_d"]], L >= 2 or D >= 2)
        if fi["tag"] != "ok" or m["tag"] != "ok":
            if fi["tag"] != m["tag"]:
                rep.violation("correspondence", "outcome implementation %s model %s" % (fi["tag"], m["tag"]), case=c)
            continue
        inst = o["inst"]
        bad = []
        # (a) narrowing: with debug output off, to_f64 is called on exactly the three arguments of the Gamma quantile
        tf = [v for v, t in inst["trace"]["to_f64"]]
        dod = x["table"]["dod"]
        want = [dod, c["point"][2 * E - 2], f2b(5.0)]
        if tf != want:
            bad.append("to_f64 called on %s, expected exactly [dod, the Gamma coordinate, 5.0] = %s" % ([b2f(v) for v in tf], [b2f(v) for v in want]))
        # (b) from_f64 only on table constants, settings and literals (never on a value derived from a T)
        t = x["table"]
        allowed = set(t["j_bits"]) | set(t["dod_bits"]) | {t["dod"], t["factor_bits"], f2b(5.0), f2b(D / 2.0), f2b(-(D / 2.0)),
                                                           f2b(D / 2.0 * L + b2f(t["dod"])), fi["lambda"]}
        if c.get("stability") is not None:
            allowed.add(c["stability"])
        stray = [b2f(v) for v in inst["trace"]["from_f64"] if v not in allowed]
        if stray:
            bad.append("from_f64 applied to values that are not table constants / settings / literals: %s" % stray[:3])
        # (c) the perturbation channel: dual part of every output vs a central difference of the f64 run
        fp, fm_, fp2, fm2 = op["f64"], om["f64"], op2["f64"], om2["f64"]
        # difference quotients of f64 runs are meaningless where V is dominated by cancellation
        nn = SC.case_numbers(c)
        finite_x = all(math.isfinite(b2f(v)) and b2f(v) > 0 for v in m["x"])      # parameters that over/underflowed: nothing to differentiate
        ratio = kap = None
        if finite_x:
            xq = [Fr(b2f(v)) for v in m["x"]]          # debug output is off: take the parameters from the model run (bit-equal)
            _, ratio, Lm, _, _ = X.v_poly(xq, nn["sig"], [[Fr(t) for t in sh] for sh in nn["shifts"]], [Fr(mm) for mm in nn["masses"]])
            kap = X.cond_estimate(Lm)
        if ratio is None or kap is None or ratio * kap > Fr(10) ** 3:
            ill += 1
        elif not (fp.get("ok") and fm_.get("ok") and fp2.get("ok") and fm2.get("ok")):
            skipped += 1
        else:
            a, b_, c0 = outputs(None, fp), outputs(None, fm_), outputs(None, inst)
            a2, b2_ = outputs(None, fp2), outputs(None, fm2)
            scale = max(abs(b2f(v)) for _, v, _ in c0 if math.isfinite(b2f(v))) if c0 else 1.0
            # the sector must not have switched between the +h and -h runs
            same_sector = SC.impl_fields(fp)["x_pre"] is not None
            for (nm, v0, d0), (_, vp, _), (_, vm, _), (_, vp2, _), (_, vm2, _) in zip(c0, a, b_, a2, b2_):
                fd = (b2f(vp) - b2f(vm)) / (2 * h)
                fd2 = (b2f(vp2) - b2f(vm2)) / (4 * h)
                d = b2f(d0)
                if not (math.isfinite(fd) and math.isfinite(d) and math.isfinite(fd2)):
                    continue
                # the central difference calibrates itself: |fd(h) - fd(2h)| estimates its own error
                fd_err = abs(fd - fd2)
                if fd_err > 1e-3 * (abs(fd) + abs(fd2)) + 1e-9:
                    unreliable += 1
                    continue
                tol = 20 * fd_err + 2e-4 * (abs(fd) + abs(d)) + 1e-6 * max(1.0, abs(b2f(v0)))
                if abs(fd - d) > tol and (abs(fd) > 1e-4 * max(1.0, abs(b2f(v0))) or abs(d) > 1e-4 * max(1.0, abs(b2f(v0)))):
                    bad.append("%s: perturbation carried %r, central difference of the f64 runs %r" % (nm, d, fd))
        if bad:
            rep.violation("property", "; ".join(bad[:3]), case=c, failing_input=True, what="a value of the user's type is narrowed to f64 outside the Gamma draw")
        rep.sample(dict(graph=c["family"], L=L, D=D, narrowed=[b2f(v) for v in tf], du=b2f(inst["u"][1]), dv=b2f(inst["v"][1])))
    rep.cov["skipped_fd_failed"] = skipped
    rep.cov["cases_without_fd_comparison_because_kappa_times_cancellation_above_1e3"] = ill
    rep.cov["outputs_skipped_because_the_difference_quotient_is_unreliable"] = unreliable
    rep.cov["rule"] = ("accepted connected graphs, generic shifts, debug output off, points in [0.05,0.95]^n; implementation at T = Inst: (a) the recorded to_f64 calls must be exactly "
                       "[dod, Gamma coordinate, 5.0]; (b) every from_f64 argument must be a table constant, a setting or a literal; (c) inputs carry first-order perturbations on the xi "
                       "and Gaussian coordinates, masses and shifts, and the perturbation part of u, v, jacobian, loop momenta, inverse, Cholesky factors, L, u-vectors must match a "
                       "central difference (h=2^-20, accepted only where the quotients at h and 2h agree to 1e-3) of f64 runs - a narrowed intermediate shows up as a perturbation that is zero or misses a term. non-trivial = L>=2 or D>=2")
