# C12 -- Gamma quantile is positive and accurate; failures are errors, not values.
from common import *
import tablecorr as TC, samplecorr as SC
import mpmath

TAGS = {1: "A1(a~1 closed form)", 2: "Tiny(b<=1e-28)", 3: "Big(a>=500)", 4: "Conv", 5: "Fuel(no convergence)"}


def P(a, x):
    return mpmath.gammainc(a, 0, x, regularized=True)


def grid(rng, tier):
    top = 1.0 - 2.0**-53
    a_vals = set()
    na = 24 if tier == "quick" else 120
    for i in range(na):
        a_vals.add(0.05 * (100 / 0.05) ** (i / (na - 1)))
    for t in [0.05, 0.3, 1.0, 2.0, 100.0, 1 - 1e-8, 1 + 1e-8, 0.5, 1.5, 10.0]:
        a_vals |= set(x for x in ulp_neighbors(t) if 0.05 <= x <= 100.0)
    for i in range(10 if tier == "quick" else 80):
        a_vals.add(0.05 + rng.unit() * rng.choice([1.0, 3.0, 30.0, 99.0]))
    # a geometric approach to every threshold of the shape from both sides (a window meant to be 1e-8 wide may have been widened)
    for t in [0.3, 1.0, 2.0]:
        for k in range(2, 8):
            for sgn in (1, -1):
                v = t * (1 + sgn * 10.0 ** -k)
                if 0.05 <= v <= 100.0:
                    a_vals.add(v)
    p_vals = [0.0, 5e-324, 2.0**-1022, 2.0**-53, 1e-300, 1e-100, 1e-30, 1e-16, 1e-10, 1e-6, 1e-3, 0.01, 0.1, 0.25,
              math.nextafter(0.5, 0), 0.5, math.nextafter(0.5, 1), 0.75, 0.9, 0.99, 0.999999, 1 - 1e-10, 1 - 1e-16, top, math.nextafter(top, 0)]
    cases = []
    mpmath.mp.dps = 30
    for a in sorted(a_vals):
        ps = list(p_vals) + [rng.unit() for _ in range(4 if tier == "quick" else 10)]
        # p chosen from the algorithm's own branch variables, not only from a grid:
        #  b = (1-p) Gamma(a) at each threshold of the starting-value selection (a < 1, and the tail branch for a >= 1),
        #  and p = P(a, a(1+delta)) so that the Cornish-Fisher estimate w is within 1e-6 (and just outside) of a,
        #  and p = P(a, 3a(1+-delta)) for the w < 3a split
        ga = float(mpmath.gamma(a))
        for thr in (0.6, 0.45, 0.35, 0.15, 0.01, 1e-28, 1e-7 ** 0.5):
            pp = 1.0 - thr / ga
            for q_ in ulp_neighbors(pp):
                if 0.0 <= q_ < 1.0:
                    ps.append(q_)
        if a >= 1.0:
            for delta in (0.0, 2e-7, -2e-7, 8e-7, -8e-7, 3e-6, -3e-6):
                ps.append(float(P(mpmath.mpf(a), mpmath.mpf(a) * (1 + delta))))
            for delta in (0.0, 1e-3, -1e-3):
                pp = float(P(mpmath.mpf(a), 3 * mpmath.mpf(a) * (1 + delta)))
                if pp < 1.0:
                    ps.append(pp)
        if tier == "quick":
            ps = [p for i, p in enumerate(ps) if i >= len(p_vals) or (i + int(a * 1000)) % 2 == 0 or p in (0.0, top)]
        for p in ps:
            cases.append(dict(a=f2b(a), p=f2b(p), n=50, eps=f2b(5.0)))
    return cases




def run(rep, rng, tier, replay=None):
    cases = grid(rng, tier)
    if replay and replay.get("chosen", {}).get("case") and "a" in replay["chosen"]["case"]:
        cases.insert(0, replay["chosen"]["case"])
    res = harness("gamma", dict(cases=cases), timeout=900)["results"]
    exprs = []
    for c, o in zip(cases, res):
        ents = []
        for op, a, b, r in o["calls"]:
            if r is None:
                ents.append((17 if op == 7 else 18, a, b, 0))
            else:
                ents.append((op, a, b if op in (5, 7, 8) else 0, r))
        exprs.append("(render_gamma %s %s %s %d %s)" % (TC.coq_oracle(ents), coq_float(b2f(c["a"])), coq_float(b2f(c["p"])), c["n"], coq_float(b2f(c["eps"]))))
    model = run_model("C12", [], TC.PRELUDE, exprs, batch=40)
    mpmath.mp.dps = 40
    exits, outcomes = {}, {}
    nacc = nerr_dom = 0
    known = known_findings("C12")
    for c, o, m in zip(cases, res, model):
        a, p = b2f(c["a"]), b2f(c["p"])
        real, ri = o["real"], o["real_impl"]
        if "panic" in real:
            io = ("panic", None)
        elif "err" in real:
            io = ("err", None)
        else:
            io = ("ok", canon_bits(real["ok"]))
        if m[0] == 3:
            mo = ("panic", None)
        else:
            x = b2f(m[1])
            tag = m[2]
            exits[TAGS[tag]] = exits.get(TAGS[tag], 0) + 1
            mo = ("ok", canon_bits(m[1])) if m[3] == 1 else ("err", None)   # the wrapper's decision is the model's (Model.Gamma.is_value)
        outcomes[io[0]] = outcomes.get(io[0], 0) + 1
        rep.count([c["a"], c["p"]], m[0] == 0 and m[2] in (4, 5))
        if io != mo:
            rep.violation("correspondence", "inverse_gamma_lr(a=%r, p=%r): implementation %s, model %s (exit %s)" % (
                a, p, (io[0], io[1] is not None and b2f(io[1])), (mo[0], mo[1] is not None and b2f(mo[1])), m[0] == 0 and TAGS[m[2]]), case=c)
        # the lambda used by a sample is this function of (dod, designated coordinate): see C14/C19 and the sample-level model
        # --- the property itself
        if io[0] == "panic":
            rep.violation("property", "inverse_gamma_lr(a=%r, p=%r) panics: %s" % (a, p, real["panic"][:100]), case=c, failing_input=True, what="panic on the documented domain")
            continue
        if io[0] != "ok":
            # "whenever the true quantile is at least 1e-13 it returns a value"
            if 0 < p < 1 and P(mpmath.mpf(a), mpmath.mpf(1e-13)) <= p:
                nerr_dom += 1
                rep.violation("property", "inverse_gamma_lr(a=%r, p=%r) returns an error although the true quantile is at least 1e-13" % (a, p), case=c, failing_input=True,
                              what="error where a value is required")
            continue
        lam = b2f(io[1])
        if not (math.isfinite(lam) and lam > 0):
            rep.violation("property", "inverse_gamma_lr(a=%r, p=%r) = Ok(%r): not a finite lambda > 0" % (a, p, lam), case=c, failing_input=True,
                          what="Ok with a non-positive or non-finite lambda")
            continue
        # accuracy where the true quantile is at least 1e-13
        if p > 0 and P(mpmath.mpf(a), mpmath.mpf(1e-13)) <= p:
            nacc += 1
            errp = abs(P(mpmath.mpf(a), mpmath.mpf(lam)) - mpmath.mpf(p))
            if errp > 2e-8:
                rep.violation("property", "inverse_gamma_lr(a=%r, p=%r) = %r but P(a, lambda) differs from p by %s (> 2e-8)" % (a, p, lam, mpmath.nstr(errp, 5)),
                              case=c, failing_input=True, what="inaccurate quantile")
        if len(rep.cov["samples"]) < 3 and m[0] == 0:
            rep.sample(dict(a=a, p=p, result=lam, exit=TAGS[m[2]], oracle_calls=len(o["calls"])))
    rep.cov["exit_histogram"] = exits
    rep.cov["outcome_histogram"] = outcomes
    rep.cov["accuracy_checked"] = nacc
    rep.cov["rule"] = ("a: log-spaced grid on [0.05,100] plus every branch threshold of the starting-value selection +-1ulp (0.3, 1, 1+-1e-8, ...) plus t(1 +- 10^-k), k = 2..7, around the thresholds 0.3, 1, 2, plus random draws; p: 0, 2^-1074, "
                       "2^-1022, 2^-53, 1e-300..1e-3, 0.5+-ulp, ..., 1-1e-16, 1-2^-53 and its predecessor, random draws; plus p placed at the algorithm's own branch variables (b = (1-p)Gamma(a) at each threshold +-1ulp, w within and just outside 1e-6 of a, w at 3a). Result bits and outcome of the real function vs the Coq "
                       "transcription (all six external functions answered by statrs/libm through the recorded table; exit tags reported), then on the real result: finite and > 0, "
                       "|P(a,lambda)-p| <= 2e-8 with mpmath at 40 digits whenever P(a,1e-13) <= p. non-trivial = the iteration ran (exit Conv or Fuel)")
