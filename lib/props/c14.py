# C14 -- each hypercube coordinate is consumed exactly once, in one statistical role.
# Dependency tracking through the user-supplied scalar type Inst (taint sets; comparisons feed a control set).
from common import *
import graphs as G, samplecorr as SC


def tset(h):
    return int(h, 16)


def bits(n):
    return [i for i in range(n.bit_length()) if n >> i & 1]


def run(rep, rng, tier, replay=None):
    extra = [replay["chosen"]["case"]] if replay and replay.get("chosen", {}).get("case") else []
    # disconnected graphs (several components, each with its own loops): the loop count that sizes the Gaussian block must be
    # the sum over the components
    dfams = [f for f in G.FAMILIES if f[0] in ("two_tadpoles", "disconnected")]
    extra += [SC.gen_sample_case(rng.fork(), emax=6, fams=dfams, connected=False) for _ in range(12 if tier == "quick" else 60)]
    got = SC.standard_run(rep, rng, tier, "C14", ["x_pre", "lambda", "q_vectors"], 1e-11, n_quick=70, n_thorough=500,
                          nontrivial=lambda c: len(c["edges"]) >= 3, extra_cases=extra, keep_mismatch=True, emax=6 if tier == "quick" else 8)
    longer, shorter, base = [], [], []
    for c, fi, m, o, timpl in got:
        E, D, L = len(c["edges"]), c["D"], c["L"]
        dim = G.num_variables(E, L, D)
        inst = o["inst"]
        md = inst["metadata"]
        bad = []
        if o["dimension"] != dim or len(c["point"]) != dim:
            bad.append("get_dimension() = %s, 2E-1+DL+(DL mod 2) = %s" % (o["dimension"], dim))
        if m is not None and (m["reads"] != dim or m["sector_reads"] != 2 * E - 2):
            rep.violation("correspondence", "model reads %s coordinates (sector %s), dimension %s" % (m["reads"], m["sector_reads"], dim), case=c)
        xi_coords = {2 * k + 1 for k in range(E - 1)}
        edge_coords = {2 * k for k in range(E - 1)}
        lam_coord = 2 * E - 2
        off = 2 * E - 1
        # lambda: the designated coordinate and nothing else; narrowed values: a, p, eps only
        if bits(tset(md["lambda"][2])) != [] and False:
            pass
        tf = inst["trace"]["to_f64"]
        narrowed = [(b2f(v), bits(tset(t))) for v, t in tf]
        # with debug output on, to_f64 is also used for logging; the three gamma arguments come first after the sector log
        gam = [(v, t) for v, t in narrowed if t == [lam_coord]]
        if not gam or any(v != b2f(c["point"][lam_coord]) for v, t in gam):
            bad.append("the Gamma draw does not narrow exactly coordinate %d" % lam_coord)
        # Gaussian components: each depends on its own pair only
        if len(md["q_vectors"]) != L or any(len(q) != D for q in md["q_vectors"]):
            bad.append("%d Gaussian vectors are drawn for %d loops (D=%d): coordinates of the missing ones are never read" % (len(md["q_vectors"]), L, D))
        for nidx in range(D * min(L, len(md["q_vectors"]))):
            t = bits(tset(md["q_vectors"][nidx // D][nidx % D][2]))
            mm = nidx // 2
            if t != [off + 2 * mm, off + 2 * mm + 1]:
                bad.append("Gaussian component %d depends on coordinates %s, expected its own pair %s" % (nidx, t, [off + 2 * mm, off + 2 * mm + 1]))
        # Feynman parameters enter L, u: value dependence on xi coordinates only; edge draws act through comparisons only
        lt = 0
        for ent in md["l_matrix"]["data"]:
            lt |= tset(ent[2])
        ut = tset(inst["u"][2])
        if not set(bits(lt | ut)) <= xi_coords:
            bad.append("L matrix / u depend (by value) on coordinates %s, allowed: the xi coordinates %s" % (bits(lt | ut), sorted(xi_coords)))
        control = set(bits(tset(inst["trace"]["control"])))
        if not control <= (xi_coords | edge_coords):
            bad.append("comparisons involve coordinates %s beyond the first 2E-2" % sorted(control - xi_coords - edge_coords))
        if not edge_coords <= control:
            bad.append("edge-draw coordinates %s never enter a comparison" % sorted(edge_coords - control))
        # lambda = from_f64(quantile(to_f64(dod), to_f64(p), ..)): its dependencies are those of the narrowed arguments
        lam_bits = md["lambda"][0]
        lam_t = set()
        for (v, t) in tf:
            if v == c["point"][lam_coord]:
                lam_t |= set(bits(tset(t)))
        if bits(tset(md["lambda"][2])):
            bad.append("lambda carries a value dependency %s although it is re-created by from_f64" % bits(tset(md["lambda"][2])))
        # every coordinate influences the result
        alldeps = set(control) | lam_t
        for k in ["u", "v", "jacobian"]:
            alldeps |= set(bits(tset(inst[k][2])))
        for vec in inst["loop_momenta"]:
            for comp in vec:
                alldeps |= set(bits(tset(comp[2])))
        pad = {dim - 1} if (D * L) % 2 == 1 else set()      # the discarded sine's second coordinate still enters r? no: cos uses both
        if not set(range(dim)) <= alldeps:
            bad.append("coordinates %s influence nothing" % sorted(set(range(dim)) - alldeps))
        if alldeps - set(range(dim)):
            bad.append("dependence on coordinates beyond the dimension: %s" % sorted(alldeps - set(range(dim))))
        # the three groups are disjoint: u (Feynman) vs lambda vs Gaussians
        if lam_t != {lam_coord}:
            bad.append("lambda depends on %s, expected {%d}" % (sorted(lam_t), lam_coord))
        if bad:
            rep.violation("property", "; ".join(bad[:3]), case=c, failing_input=True, what="coordinate roles violated (dependency sets)")
        rep.sample(dict(E=E, D=D, L=L, dimension=dim, control=sorted(control), lambda_deps=sorted(lam_t), u_deps=bits(ut)))
        if len(longer) < (25 if tier == "quick" else 150):
            c2 = json.loads(json.dumps(c)); c2["point"] = c["point"] + [NAN_BITS, f2b(0.5)]
            c3 = json.loads(json.dumps(c)); c3["point"] = c["point"][:-1]
            longer.append(c2); shorter.append(c3); base.append(fi)
    if longer:
        r2 = harness("sample", dict(cases=longer), timeout=600)["results"]
        r3 = harness("sample", dict(cases=shorter), timeout=600)["results"]
        for c2, c3, o2, o3, fi in zip(longer, shorter, r2, r3, base):
            rep.count(["pad", c2["edges"], c2["point"]], True)
            f2 = SC.impl_fields(o2["f64"])
            if f2 != fi:
                rep.violation("property", "coordinates beyond get_dimension() (a NaN and 0.5 appended) change the result", case=c2, failing_input=True)
            if "panic" not in o3["f64"]:
                rep.violation("property", "a point one coordinate short does not panic: some coordinate below get_dimension() is never read", case=c3, failing_input=True)
    rep.cov["rule"] = ("accepted connected graphs E<=%d plus 12 (60) disconnected ones (two_tadpoles / disconnected families), D=1..6; implementation run at T = Inst (taint sets on values, control set fed by PartialOrd/PartialEq): lambda <- {2E-2}, Gaussian "
                       "component n <- its own pair, L matrix and u <- xi coordinates only (by value), comparisons involve only the first 2E-2 coordinates and every edge-draw coordinate, "
                       "the union of all dependencies is exactly [0, dimension); then two poison coordinates appended (no output bit may change) and one coordinate removed (must panic). "
                       "Read counts of the model (theorem-backed) compared with get_dimension(). non-trivial = E>=3" % (6 if tier == "quick" else 8))
