# C18 -- a serialised sampler restores to one that samples identically.
from common import *
import graphs as G, samplecorr as SC, tablecorr as TC
import importlib
c17 = importlib.import_module("props.c17")

SHAPE = {
    "": ["loop_signature", "table"],
    "table": ["table", "dimension", "tropical_graph", "cached_factor"],
    "table.tropical_graph": ["dod", "topology", "num_massive_edges", "external_vertices", "num_loops"],
    "edge": ["edge_id", "left", "right", "weight", "is_massive"],
    "entry": ["loop_number", "mass_momentum_spanning", "j_function", "generalized_dod"],
}


def check_shape(j, c, m):
    """the serialised form must be exactly the model's sampler, field for field (names, order, no extra / skipped field)"""
    bad = []
    if list(j.keys()) != SHAPE[""]:
        bad.append("top-level fields %s" % list(j.keys()))
        return bad
    t = j["table"]
    if list(t.keys()) != SHAPE["table"]:
        bad.append("table fields %s" % list(t.keys()))
        return bad
    if list(t["tropical_graph"].keys()) != SHAPE["table.tropical_graph"]:
        bad.append("tropical_graph fields %s" % list(t["tropical_graph"].keys()))
        return bad
    if j["loop_signature"] != c["signature"]:
        bad.append("loop_signature is not the one supplied")
    tg = t["tropical_graph"]
    for i, (e, ce) in enumerate(zip(tg["topology"], c["edges"])):
        if list(e.keys()) != SHAPE["edge"]:
            bad.append("edge fields %s" % list(e.keys()))
            break
        if [e["edge_id"], e["left"], e["right"], f2b(e["weight"]), e["is_massive"]] != [i, ce[0], ce[1], ce[3], ce[2]]:
            bad.append("edge %d is not the input edge" % i)
    if len(tg["topology"]) != len(c["edges"]) or tg["external_vertices"] != c["externals"]:
        bad.append("topology / external_vertices differ from the input graph")
    if m["tag"] == "ok":
        if len(t["table"]) != len(m["entries"]):
            bad.append("table length")
        for gid, (e, me) in enumerate(zip(t["table"], m["entries"])):
            if list(e.keys()) != SHAPE["entry"]:
                bad.append("entry fields %s" % list(e.keys()))
                break
            if e["loop_number"] != me[0] or int(e["mass_momentum_spanning"]) != me[1]:
                bad.append("entry %d" % gid)
        if t["dimension"] != m["dim"] or tg["num_loops"] != m["loops"] or tg["num_massive_edges"] != m["nmassive"]:
            bad.append("dimension/num_loops/num_massive_edges differ from the model's sampler")
    return bad


def small_values(r):
    """a one-loop polygon close to a divergence: dod (hence the table's generalised dods of spanning subsets, the Gamma(dod) in the
    factor) is a small non-dyadic number, and where the acceptance rule allows it one edge weight is below 0.1: stored floats whose
    decimal text needs all 17 SIGNIFICANT digits"""
    fams = [f for f in G.FAMILIES if f[0] in ("bubble", "triangle", "box", "pentagon")]
    for _ in range(40):
        c = SC.gen_sample_case(r, emax=5, fams=fams)
        E, D = len(c["edges"]), c["D"]
        delta = r.choice([0.03, 0.0123, 0.0071, 0.051, 0.0907, 0.00093])
        ws = [(D / 2.0 + delta) / E + (r.unit() - 0.5) * 0.02 for _ in range(E)]
        if r.chance(0.5):
            k = r.below(E)
            tiny = r.choice([0.0371, 0.0813, 0.0097])
            ws = [tiny if e == k else w + (ws[k] - tiny) / (E - 1) for e, w in enumerate(ws)]
        g = dict(edges=[(a, b, m, w) for (a, b, m, _), w in zip(c["edges"], ws)], externals=c["externals"], D=D)
        ok, tab, dod, L = G.accepted(g)
        if ok and 0 < dod < 0.1 and min(ws) > 0:
            c["edges"] = [[a, b, m, f2b(w)] for (a, b, m, _), w in zip(c["edges"], ws)]
            c["family"] = "near_divergent_" + str(c.get("family"))
            return c
    return c


def run(rep, rng, tier, replay=None):
    ncase = 40 if tier == "quick" else 300
    nsmall = 8 if tier == "quick" else 40
    cases = []
    for i in range(ncase + nsmall):
        r = rng.fork()
        c = SC.gen_sample_case(r, emax=6) if i < ncase else small_values(r)
        E, L, D = len(c["edges"]), c["L"], c["D"]
        dim = G.num_variables(E, L, D)
        ops = []
        for k in range(6):
            pt = [f2b(r.open_unit()) for _ in range(dim)]
            if k == 0:
                pt = [f2b(2.0**-30)] * dim
            if k == 1:
                pt = [f2b(1 - 2.0**-53)] * dim
            ops.append(dict(kind="point", scalar="f64", point=pt, edge_data=c["edge_data"], stability=None, debug=False, metadata=(k % 2 == 0)))
        c["ops"], c["threads"] = ops, 1
        cases.append(c)
    res = harness("history", dict(cases=cases), timeout=900)["results"]
    impl_t, model_t = TC.run_tables("C18", cases, batch=20)
    for c, o, ti, tm in zip(cases, res, impl_t, model_t):
        if "restore_err" in o:
            rep.count([c["edges"], c["signature"], c["D"]], len(c["edges"]) >= 3)
            rep.violation("property", "the serialised sampler cannot be deserialised: %s" % o["restore_err"][:200], case=dict(c, ops=c["ops"][:1]), failing_input=True,
                          what="serialise -> deserialise fails")
            continue
        if "results" not in o:
            rep.violation("machinery", "history harness: %s" % str(o)[:300], case=dict(c, ops=[]))
            continue
        rep.count([c["edges"], c["signature"], c["D"]], len(c["edges"]) >= 3)
        small = dict(c, ops=c["ops"][:1])
        try:
            bad = check_shape(json.loads(o["json_text"]), c, tm)      # python keeps the order of the text
        except Exception as ex:                                       # another serialised layout altogether
            bad = ["the serialised document does not have the model's layout (%s: %s)" % (type(ex).__name__, str(ex)[:80])]
        for cat, msg in TC.diff_tables(c, ti, tm):
            bad.append(msg)
        if bad:
            rep.violation("correspondence", "serialised shape differs from the model's sampler: " + "; ".join(bad[:3]), case=small)
        if not o["json_roundtrip_identical"]:
            rep.violation("property", "JSON: deserialise + serialise does not reproduce the bytes", case=small, failing_input=True)
        if not o["cbor_roundtrip_identical"]:
            rep.violation("property", "CBOR: deserialise + serialise does not reproduce the bytes", case=small, failing_input=True)
        if not o.get("compact_roundtrip_identical", True):
            rep.violation("property", "value tree with positional structs: deserialise + serialise does not reproduce the document", case=small, failing_input=True)
        d = o["restored_dimension"]
        if len(set(d)) != 1 or len(set(o["restored_dod"])) != 1:
            rep.violation("property", "restored sampler has another dimension / dod: %s %s" % (d, o["restored_dod"]), case=small, failing_input=True)
        for i, (a, rj, rc, rp) in enumerate(zip(o["results"], o["restored_json"], o["restored_cbor"], o.get("restored_compact", o["restored_cbor"]))):
            rep.count([c["edges"], c["ops"][i]["point"]], True)
            if c17.strip(a) != c17.strip(rj) or c17.strip(a) != c17.strip(rc) or c17.strip(a) != c17.strip(rp):
                rep.violation("property", "sample %d differs after a serde round trip (JSON equal: %s, CBOR equal: %s, positional value tree equal: %s)" % (
                    i, c17.strip(a) == c17.strip(rj), c17.strip(a) == c17.strip(rc), c17.strip(a) == c17.strip(rp)),
                              case=dict(c, ops=[c["ops"][i]]), failing_input=True, what="restored sampler samples differently")
        rep.sample(dict(graph=c["family"], E=len(c["edges"]), json_keys=list(o["json"]["table"].keys())))
    # large samplers (11 and 12 edges, two loops, all-massive "theta" graphs): round trip only (no table model: 2^12 subsets),
    # so that anything keyed or ordered by the edge index is exercised beyond one digit
    big = []
    for chains in ([4, 4, 3], [5, 4, 3]):
        r = rng.fork()
        pairs, nxt = [], 2
        for ln in chains:
            prev = 0
            for k in range(ln):
                v = 1 if k == ln - 1 else nxt
                nxt += 0 if k == ln - 1 else 1
                pairs.append((prev, v))
                prev = v
        E = len(pairs)
        sig, tree, chords = G.fundamental_signature(pairs)
        D, L = 3, 2
        dim = G.num_variables(E, L, D)
        ed = [dict(mass=f2b(0.5 + r.unit()), shift=[f2b(round((r.unit() - 0.5) * 4, 3)) for _ in range(D)]) for _ in range(E)]
        ops = [dict(kind="point", scalar="f64", point=[f2b(r.open_unit()) for _ in range(dim)], edge_data=ed, stability=None, debug=False, metadata=True) for _ in range(3)]
        big.append(dict(edges=[[a, b, True, f2b(1.0 + 0.125 * (i % 3))] for i, (a, b) in enumerate(pairs)], externals=[0, 1], D=D, signature=sig, edge_data=ed,
                        ops=ops, threads=1, family="theta%s" % chains, L=L))
    resb = harness("history", dict(cases=big), timeout=900)["results"]
    for c, o in zip(big, resb):
        small = dict(c, ops=c["ops"][:1])
        rep.count([c["edges"], c["signature"], c["D"]], True)
        if "restore_err" in o:
            rep.violation("property", "the serialised sampler (E=%d) cannot be deserialised: %s" % (len(c["edges"]), o["restore_err"][:200]), case=small, failing_input=True)
            continue
        if "results" not in o or "restored_json" not in o:
            rep.violation("machinery", "history harness (large sampler): %s" % str(o)[:300], case=dict(c, ops=[]))
            continue
        if not (o["json_roundtrip_identical"] and o["cbor_roundtrip_identical"]):
            rep.violation("property", "E=%d: deserialise + serialise does not reproduce the bytes" % len(c["edges"]), case=small, failing_input=True)
        for i, (a, rj, rc) in enumerate(zip(o["results"], o["restored_json"], o["restored_cbor"])):
            rep.count([c["edges"], c["ops"][i]["point"]], True)
            if c17.strip(a) != c17.strip(rj) or c17.strip(a) != c17.strip(rc):
                rep.violation("property", "E=%d: sample %d differs after a serde round trip (JSON equal: %s, CBOR equal: %s)" % (
                    len(c["edges"]), i, c17.strip(a) == c17.strip(rj), c17.strip(a) == c17.strip(rc)),
                    case=dict(c, ops=[c["ops"][i]]), failing_input=True, what="restored sampler samples differently")
    rep.cov["large_samplers"] = [dict(E=len(c["edges"]), family=c["family"]) for c in big]
    rep.cov["rule"] = ("accepted connected graphs from all families, D=1..6; the implementation's JSON must equal the model's sampler field for field (names, order, values: catches "
                       "serde(skip), renamed or recomputed fields); round trip through serde_json, ciborium and an in-memory value tree that writes structs as positional sequences (as MessagePack's compact mode): re-serialisation byte-identical, equal dimension/dod, and 6 points per "
                       "sampler (random, all 2^-30, all 1-2^-53) sampled bit-identically by original, JSON-restored and CBOR-restored samplers; two large samplers (theta graphs with 11 and 12 edges) through the same round trips; 8 (40) one-loop polygons with 0 < dod < 0.1 and an edge weight below 0.1 (small stored floats). non-trivial = E>=3 (shape) / every sample")
    rep.assumptions.append("serde_json, ciborium and the harness value-tree format preserve the serde data model and f64 exactly")
