# C03 -- the subgraph table holds the true loop number, spanning flag, degree of divergence.
from common import *
import graphs as G, tablecorr as TC
from fractions import Fraction


def exhaustive_small(D_list, emax):
    """all multigraphs with E <= emax on labels {0,1,2}, all mass patterns, all external subsets of {0,1,2}"""
    import itertools
    pairs_all = [(a, b) for a in range(3) for b in range(a, 3)]
    for E in range(1, emax + 1):
        for pairs in itertools.product(pairs_all, repeat=E):
            for masks in itertools.product([False, True], repeat=E):
                for ext in itertools.chain.from_iterable(itertools.combinations(range(3), k) for k in range(4)):
                    for D in D_list:
                        yield dict(edges=[[a, b, m, f2b(1.0 + 0.25 * i)] for i, ((a, b), m) in enumerate(zip(pairs, masks))],
                                   externals=list(ext), D=D)


def check_against_exact(rep, c, o):
    """independent oracle: union-find + exact rationals.  A difference is a failing input."""
    if TC.impl_outcome(o) != "ok":
        return
    g = TC.case_graph(c)
    tab, dod, L = G.exact_table(g)
    j = o["json"]["table"]
    E = len(c["edges"])
    bad = []
    if j["tropical_graph"]["num_loops"] != L:
        bad.append("num_loops %s, true %s" % (j["tropical_graph"]["num_loops"], L))
    if not rel_close(b2f(o["dod"]), float(dod), 1e-12, 1e-12):
        bad.append("get_dod %r, true %s" % (b2f(o["dod"]), dod))
    if o["dimension"] != G.num_variables(E, L, c["D"]):
        bad.append("get_dimension %s, true %s" % (o["dimension"], G.num_variables(E, L, c["D"])))
    if o["num_edges"] != E or o["weights"] != [e[3] for e in c["edges"]]:
        bad.append("edge count / weights differ from the input graph")
    if len(j["table"]) != len(tab):
        bad.append("table has %d entries, expected %d" % (len(j["table"]), len(tab)))
    else:
        for gid, (e, (l, sp, gd)) in enumerate(zip(j["table"], tab)):
            if e["loop_number"] != l:
                bad.append("subset %d: loop_number %s, true %s" % (gid, e["loop_number"], l))
            if e["mass_momentum_spanning"] != sp:
                bad.append("subset %d: mass_momentum_spanning %s, true %s" % (gid, e["mass_momentum_spanning"], sp))
            if not rel_close(b2f(o["dod_bits"][gid]), float(gd), 1e-12, 1e-12):
                bad.append("subset %d: generalized_dod %r, true %s" % (gid, b2f(o["dod_bits"][gid]), gd))
    if bad:
        rep.violation("property", "; ".join(bad[:4]), case=c, failing_input=True,
                      what="table entry differs from the exact (union-find, rational) value")


def run(rep, rng, tier, replay=None):
    cases = []
    if replay and replay.get("chosen", {}).get("case"):
        cases.append(replay["chosen"]["case"])
    n = 160 if tier == "quick" else 1500
    cases += TC.gen_mixed_cases(rng, n, 7 if tier == "quick" else 8, accepted_share=0.6)
    ex = list(exhaustive_small([1, 2, 3, 4, 5, 6] if tier == "thorough" else [3], 2))
    if tier == "thorough":
        ex3 = list(exhaustive_small([3], 3))
        r2 = rng.fork()
        r2.shuffle(ex3)
        ex += ex3[:3000]
    cases += ex
    impl, model = TC.run_tables("C03", cases, batch=40)
    hist, eq, tot = {}, 0, 0
    for c, o, m in zip(cases, impl, model):
        rep.count(c, TC.nontrivial_graph(c))
        k = "E=%d" % len(c["edges"])
        hist[k] = hist.get(k, 0) + 1
        for cat, msg in TC.diff_tables(c, o, m):
            if cat == "shape":
                rep.violation("correspondence", msg, case=c)
        if TC.impl_outcome(o) == "panic":
            rep.violation("property", "build_sampler panicked: %s" % o["panic"], case=c, failing_input=True)
        check_against_exact(rep, c, o)
        a, b = TC.bit_exact(o, m)
        eq += a
        tot += b
        rep.sample(dict(case=c, impl_outcome=TC.impl_outcome(o), model=m if m["tag"] != "ok" else dict(tag="ok", loops=m["loops"], entries=m["entries"][:4])))
    # a correspondence failure with no failing input: promote using the exact oracle result
    rep.cov["rule"] = ("random: accepted graphs from named families (rejection on a weight grid) and raw random multigraphs (self-loops, parallel "
                       "edges, several components, u8 labels, random externals incl. untouched vertices, mixed masses), D=1..6; exhaustive: all "
                       "multigraphs with E<=2 (thorough: + 3000 of E=3) on labels {0,1,2} x all mass patterns x all external subsets. "
                       "non-trivial = E>=2 and (mixed masses | >=2 components | self-loop | parallel edges | externals a strict subset | untouched external)")
    rep.cov["edge_count_histogram"] = hist
    rep.cov["bit_exact_rate"] = (eq / tot) if tot else None
    rep.cov["exhaustive_part"] = "all multigraphs with E<=2 on 3 labels (see rule)"
    rep.assumptions.append("independent oracle (union-find + Fractions) in lib/graphs.py is itself trusted for the search stage")
