# C13 -- Gaussian vectors are the Box-Muller transform of their designated coordinates.
from common import *
import graphs as G, samplecorr as SC
import mpmath


def run(rep, rng, tier, replay=None):
    extra = [replay["chosen"]["case"]] if replay and replay.get("chosen", {}).get("case") else []
    # the far tail and the ends of the angle: radial coordinates down to the smallest subnormal, angles at 0+, quarter turns, 1-
    A_SPECIAL = [1e-20, 1e-300, 2.2250738585072014e-308, 5e-324, 3e-17, 1e-16, 2.220446049250313e-16, 2.3e-16, 1e-10, 1 - 2.0**-53, 0.5]
    B_SPECIAL = [5e-324, 1e-300, 2.0**-53, 0.25, 0.5, 0.75, 1 - 2.0**-53]
    for i in range(24 if tier == "quick" else 150):
        r = rng.fork()
        c = SC.gen_sample_case(r, emax=6)
        off = 2 * len(c["edges"]) - 1
        for kk in range(off, len(c["point"])):
            if (kk - off) % 2 == 0:
                if r.chance(0.7):
                    c["point"][kk] = f2b(r.choice(A_SPECIAL))
            elif r.chance(0.4):
                c["point"][kk] = f2b(r.choice(B_SPECIAL))
        extra.append(c)
    got = SC.standard_run(rep, rng, tier, "C13", ["q_vectors"], 1e-13, n_quick=80, n_thorough=600,
                          nontrivial=lambda c: c["L"] * c["D"] >= 3, extra_cases=extra, emax=7 if tier == "quick" else 8)
    mpmath.mp.dps = 40
    # stage isolation: model's sample_q_vectors on the tail of the point, oracle = the calls the implementation made
    exprs, keep = [], []
    for c, fi, m, o, timpl in got:
        E, D, L = len(c["edges"]), c["D"], c["L"]
        ents = [(cl[0], cl[1], 0, cl[3]) for cl in o["inst"]["trace"]["calls"] if cl[0] in (1, 3, 4)]
        exprs.append("(render_qvectors %s %s %d %d %d)" % (SC.TC.coq_oracle(ents), coq_flist(SC.floats(c["point"])), 2 * E - 1, D, L))
        keep.append((c, fi))
    stage = run_model("C13stage", [], SC.TC.PRELUDE, exprs, batch=30)
    for (c, fi), r in zip(keep, stage):
        E, D, L = len(c["edges"]), c["D"], c["L"]
        G_ = D * L
        if r[0] != 0 or r[1] != 2 * E - 1 + G_ + G_ % 2 or r[2:] != fi["q_vectors"]:
            rep.violation("correspondence", "sample_q_vectors stage: model %s..., implementation %s..." % (r[:4], fi["q_vectors"][:2]), case=c)
    for c, fi, m, o, timpl in got:
        E, D, L = len(c["edges"]), c["D"], c["L"]
        pt = SC.floats(c["point"])
        off = 2 * E - 1
        q = SC.floats(fi["q_vectors"])
        bad = []
        for nidx in range(D * L):
            mm = nidx // 2
            a, b = mpmath.mpf(pt[off + 2 * mm]), mpmath.mpf(pt[off + 2 * mm + 1])
            rr = mpmath.sqrt(-2 * mpmath.log(a))
            th = 2 * mpmath.pi * b
            ex = (mpmath.cos(th) if nidx % 2 == 0 else mpmath.sin(th)) * rr
            if abs(q[nidx] - float(ex)) > 4e-15 * max(1.0, float(rr)) + 1e-15 * float(rr) * (1 + 7 * b):
                bad.append("component %d of loop vector %d = %r, Box-Muller of coordinates (%d,%d) gives %r" % (
                    nidx % D, nidx // D, q[nidx], off + 2 * mm, off + 2 * mm + 1, float(ex)))
        # the transcendental calls themselves: ln at every a, cos and sin at every theta, nothing else after the sector stage
        calls = o["inst"]["trace"]["calls"]
        lns = [cl for cl in calls if cl[0] == 1]
        npairs = (D * L + (D * L) % 2) // 2
        if [cl[1] for cl in lns] != [c["point"][off + 2 * k] for k in range(npairs)]:
            bad.append("ln is not called exactly once per pair on the first coordinate of the pair")
        if len([cl for cl in calls if cl[0] == 3]) != npairs or len([cl for cl in calls if cl[0] == 4]) != npairs:
            bad.append("cos/sin are not called once per pair (the last sine is computed and dropped when D*L is odd)")
        if bad:
            rep.violation("property", "; ".join(bad[:3]), case=c, failing_input=True, what="Gaussian component differs from the Box-Muller definition")
        rep.sample(dict(D=D, L=L, offset=off, q_vectors=q[:4], coords=pt[off:off + 4]))
    rep.cov["rule"] = ("accepted connected graphs, D=1..6, L=1..4 (all D*L parities), points uniform in the open cube plus points whose radial coordinates sit in the far tail (1e-10 ... 5e-324, around 2^-52, 1-2^-53) and whose angles sit at 0+, quarter turns and 1-; q_vectors vs the whole-pipeline model (bit-exact rate reported) "
                       "and vs the model's sample_q_vectors stage alone; each component vs the definition in 40-digit arithmetic (absolute tolerance a few ulp of the radius); the "
                       "recorded ln/cos/sin calls must be exactly one per pair on the designated coordinates. non-trivial = D*L>=3")
