# C15 -- the matrix routine returns the true determinant, inverse and Cholesky factors.
from common import *
import graphs as G, samplecorr as SC, exact as X
from fractions import Fraction as Fr


def rand_spd(r, n, kind):
    """float SPD matrix (as exact Fractions of floats) with a rough target condition number"""
    if kind == "hilbert":
        M = [[float(Fr(1, i + j + 1)) for j in range(n)] for i in range(n)]
        return M
    if kind == "arrow":
        # sparse with fill-in: index h couples to every other index, the others are mutually uncoupled (exact zeros in M,
        # none in its Cholesky factor when h comes first); strictly diagonally dominant, hence SPD
        h = 0 if r.chance(0.6) else r.below(n)
        M = [[0.0] * n for _ in range(n)]
        for j in range(n):
            if j != h:
                M[h][j] = M[j][h] = float(r.choice([-3, -2, -1, 1, 2, 3])) * (1.0 if r.chance(0.7) else 0.5 + r.unit())
                M[j][j] = abs(M[h][j]) + 0.5 + 3 * r.unit()
        M[h][h] = sum(abs(M[h][j]) for j in range(n)) + 0.5 + 3 * r.unit()
        return M
    if kind == "graded":
        d = [10.0 ** (-r.range(0, 3) * i / max(1, n - 1)) for i in range(n)]
    elif kind == "cond":
        ex = r.range(0, 9)
        d = [10.0 ** (-ex * i / max(1, n - 1)) for i in range(n)]
    else:
        d = [0.5 + 2 * r.unit() for _ in range(n)]
    # A = B diag(d) B^T with B a random small-integer unimodular-ish matrix
    B = [[float(r.range(-2, 2)) if i != j else 1.0 for j in range(n)] for i in range(n)]
    for i in range(n):
        for j in range(i):
            B[j][i] = 0.0 if r.chance(0.5) else B[j][i]
    M = [[sum(B[i][k] * d[k] * B[j][k] for k in range(n)) for j in range(n)] for i in range(n)]
    M = [[(M[i][j] + M[j][i]) / 2 for j in range(n)] for i in range(n)]
    return M


def is_spd_exact(Mq):
    n = len(Mq)
    for k in range(1, n + 1):
        if X.det([row[:k] for row in Mq[:k]]) <= 0:
            return False
    return True


def gen_cases(rng, tier):
    cases = []
    n = 160 if tier == "quick" else 1500
    for i in range(n):
        r = rng.fork()
        dim = 1 + i % 8
        kind = r.choice(["plain", "plain", "graded", "cond", "cond", "hilbert", "arrow"])
        if kind == "hilbert" and dim > 6:
            kind = "cond"
        if kind == "arrow" and dim < 3:
            kind = "plain"
        M = rand_spd(r, dim, kind)
        if i % 5 == 4 and kind in ("plain", "graded"):
            # homogeneity: the same well-conditioned matrix at a very different overall scale (exact power of two)
            sc = 2.0 ** r.choice([-70, -60, -40, 40, 60, 70])
            M = [[v * sc for v in row] for row in M]
            kind = kind + "-scaled"
        cases.append(dict(n=dim, m=[f2b(v) for row in M for v in row], stability=None, kind=kind))
    return cases


def model_exprs(cases):
    return ["(render_matrix %d %s %s)" % (c["n"], coq_flist([b2f(v) for v in c["m"]]), SC.coq_opt(c.get("stability"))) for c in cases]


def parse_model(c, r):
    n = c["n"]
    if r[0] != 0:
        return dict(tag={1: "ZeroDet", 2: "Unstable", 3: "panic"}[r[0]])
    return dict(tag="ok", determinant=r[1], inverse=r[2:2 + n * n], q_transposed=r[2 + n * n:2 + 2 * n * n],
                q_transposed_inverse=r[2 + 2 * n * n:2 + 3 * n * n])


def impl_fields(o):
    if "panic" in o:
        return dict(tag="panic", why=o["panic"])
    if not o["ok"]:
        return dict(tag=o["err"])
    return dict(tag="ok", determinant=canon_bits(o["determinant"][0]), inverse=SC.vals(o["inverse"]),
                q_transposed=SC.vals(o["q_transposed"]), q_transposed_inverse=SC.vals(o["q_transposed_inverse"]))


def run(rep, rng, tier, replay=None):
    cases = gen_cases(rng, tier)
    if replay and replay.get("chosen", {}).get("case"):
        cases.insert(0, replay["chosen"]["case"])
    impl = harness("matrix", dict(cases=cases), timeout=600)["results"]
    model = run_model("C15", [], SC.TC.PRELUDE, model_exprs(cases), batch=40)
    eq = tot = 0
    hist, skipped = {}, 0
    for c, o, r in zip(cases, impl, model):
        n = c["n"]
        Mq = [[Fr(b2f(c["m"][i * n + j])) for j in range(n)] for i in range(n)]
        hist["n=%d" % n] = hist.get("n=%d" % n, 0) + 1
        spd = is_spd_exact(Mq)
        kappa = X.cond_estimate(Mq) if spd else None
        rep.count(c["m"], n >= 3)
        fi, ii, m = impl_fields(o["f64"]), impl_fields(o["inst"]), parse_model(c, r)
        if fi != ii:
            rep.violation("correspondence", "decompose_for_tropical at T = Inst differs from T = f64", case=c)
        if fi["tag"] != "ok":
            dexact = X.det(Mq) if spd else None
            in_range = dexact is not None and Fr(10) ** -280 < dexact < Fr(10) ** 280     # determinant representable in binary64
            if spd and kappa < Fr(10) ** 10 and in_range:
                rep.violation("property", "SPD matrix (kappa %.3g) rejected with %s" % (float(kappa), fi["tag"]), case=c, failing_input=True)
        if fi["tag"] != m["tag"]:
            rep.violation("correspondence", "outcome implementation %s, model %s" % (fi["tag"], m["tag"]), case=c)
            continue
        if fi["tag"] != "ok":
            continue
        allout = [fi["determinant"]] + fi["inverse"] + fi["q_transposed"] + fi["q_transposed_inverse"]
        if spd and kappa < Fr(10) ** 10 and not all(math.isfinite(b2f(v)) for v in allout):
            rep.violation("property", "Ok returned for an SPD matrix (kappa %.3g, n=%d) but the results contain NaN/inf" % (float(kappa), n), case=c, failing_input=True,
                          what="non-finite decomposition of a well-conditioned SPD matrix")
            continue
        for k in ["determinant", "inverse", "q_transposed", "q_transposed_inverse"]:
            a, b = (fi[k], m[k]) if isinstance(fi[k], list) else ([fi[k]], [m[k]])
            tot += len(a)
            eq += sum(1 for p, q in zip(a, b) if p == q)
            msgs = SC.cmp_field(k, fi[k], m[k], 1e-12)
            if msgs:
                rep.violation("correspondence", "; ".join(msgs[:3]), case=c)
        if not spd or kappa > Fr(10) ** 10:
            skipped += 1
            continue
        # exact oracle on the implementation's outputs
        tol = 1e-13 * n * float(kappa)
        Qt = [[Fr(b2f(fi["q_transposed"][i * n + j])) for j in range(n)] for i in range(n)]
        Qti = [[Fr(b2f(fi["q_transposed_inverse"][i * n + j])) for j in range(n)] for i in range(n)]
        Inv = [[Fr(b2f(fi["inverse"][i * n + j])) for j in range(n)] for i in range(n)]
        bad = []
        for i in range(n):
            if Qt[i][i] <= 0:
                bad.append("q_transposed diagonal entry %d is not positive" % i)
            for j in range(i):
                if Qt[i][j] != 0:
                    bad.append("q_transposed is not upper triangular at (%d,%d)" % (i, j))
        nrm = float(max(sum(abs(v) for v in row) for row in Mq))
        QtQ = X.matmul(X.transpose(Qt), Qt)
        if max(abs(float(QtQ[i][j] - Mq[i][j])) for i in range(n) for j in range(n)) > tol * nrm:
            bad.append("q_transposed^T * q_transposed does not reproduce the matrix")
        I1 = X.matmul(Qti, Qt)
        if max(abs(float(I1[i][j] - (1 if i == j else 0))) for i in range(n) for j in range(n)) > tol * 10:
            bad.append("q_transposed_inverse * q_transposed is not the identity")
        I2 = X.matmul(Inv, Mq)
        if max(abs(float(I2[i][j] - (1 if i == j else 0))) for i in range(n) for j in range(n)) > tol * 10:
            bad.append("inverse * matrix is not the identity")
        dq = X.det(Mq)
        if not rel_close(b2f(fi["determinant"]), float(dq), tol * 10):
            bad.append("determinant %r, exact %r" % (b2f(fi["determinant"]), float(dq)))
        if bad:
            rep.violation("property", "; ".join(bad[:3]) + " [n=%d kappa=%.3g]" % (n, float(kappa)), case=c, failing_input=True,
                          what="decomposition inaccurate beyond the condition-scaled tolerance")
        rep.sample(dict(n=n, kind=c["kind"], kappa=float(kappa), determinant=b2f(fi["determinant"])))
    rep.cov["dimension_histogram"] = hist
    rep.cov["bit_exact_rate"] = (eq / tot) if tot else None
    rep.cov["skipped_not_spd_or_kappa_above_1e10"] = skipped
    rep.cov["rule"] = ("symmetric matrices n=1..8 (cycling): B diag(d) B^T with small-integer triangular-ish B and d plain / graded / geometric with condition up to ~1e9, Hilbert "
                       "(n<=6), sparse 'arrow' matrices (exact zeros whose Cholesky factor fills in), well-conditioned ones also at overall scales 2^+-40..70; positive definiteness and kappa_inf decided exactly in rationals; all four results vs the Coq model (no oracle needed; bit-exact rate reported, relation "
                       "1e-12) and vs exact linear algebra on the implementation's outputs (tolerance 1e-13*n*kappa). non-trivial = n>=3")
