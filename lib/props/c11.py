# C11 -- jacobian equals normalisation x U^(-D/2) x V^(-dod) in the rescaled gauge.
from common import *
import graphs as G, samplecorr as SC, exact as X
from fractions import Fraction as Fr
import mpmath
import importlib
c07 = importlib.import_module("props.c07")
c04 = importlib.import_module("props.c04")


def run(rep, rng, tier, replay=None):
    extra = [replay["chosen"]["case"]] if replay and replay.get("chosen", {}).get("case") else []
    got = SC.standard_run(rep, rng, tier, "C11", ["jacobian", "u", "v", "u_trop", "v_trop"], 1e-10, n_quick=70, n_thorough=500,
                          nontrivial=lambda c: c["D"] % 2 == 1 or c["L"] >= 2, extra_cases=extra, emax=6 if tier == "quick" else 7, zero_shift_share=0.0)
    mpmath.mp.dps = 40
    skipped = 0
    ONE = f2b(1.0)
    # stage isolation: the model's jacobian formula fed with the implementation's own u, v and table constants
    exprs, keep = [], []
    for c, fi, m, o, timpl in got:
        D = c["D"]
        dod, fac = b2f(timpl["dod"]), b2f(timpl["factor_bits"])
        u, v = b2f(fi["u"]), b2f(fi["v"])
        ents = []
        for call in o["inst"]["trace"]["calls"]:
            if call[0] == 5:
                ents.append((5, call[1], call[2], call[3]))
        exprs.append("(render_jacobian %s %d %s %s %s %s)" % (SC.TC.coq_oracle(ents), D, coq_float(dod), coq_float(fac), coq_float(u), coq_float(v)))
        keep.append((c, fi))
    stage = run_model("C11stage", [], SC.TC.PRELUDE, exprs, batch=30)
    for (c, fi), r in zip(keep, stage):
        if not rel_close(b2f(fi["jacobian"]), b2f(r[0]), 1e-12):
            rep.violation("correspondence", "jacobian %r, model formula on the implementation's own u, v: %r" % (b2f(fi["jacobian"]), b2f(r[0])), case=c)
    for c, fi, m, o, timpl in got:
        n = SC.case_numbers(c)
        E, D, L = n["E"], n["D"], n["L"]
        c04.check_exact(rep, c, timpl, False)     # the normalisation itself: I_tr Gamma(dod) / prod Gamma(w) pi^(DL/2) in exact / 50-digit arithmetic
        dod, fac = b2f(timpl["dod"]), b2f(timpl["factor_bits"])
        u, v, jac = b2f(fi["u"]), b2f(fi["v"]), b2f(fi["jacobian"])
        bad = []
        if fi["u_trop"] != ONE or fi["v_trop"] != ONE:
            bad.append("returned u_trop / v_trop are not 1")
        # "in the rescaled gauge": u_trop = v_trop = 1 must be what the true tropical polynomials give at the returned parameters
        tn = c07.tropical_normalisation(c, SC.floats(fi["x"]), dod)
        if tn is not None and math.isfinite(tn) and not rel_close(tn, 1.0, 1e-8 * (2 + D + abs(dod))):
            bad.append("u_trop = v_trop = 1 are returned, but the largest monomials of U and F at the returned parameters give U_tr^(D/2) V_tr^dod = %r" % tn)
        if not (math.isfinite(u) and math.isfinite(v) and u > 0 and v > 0 and math.isfinite(jac)):
            skipped += 1
            continue
        ex = mpmath.mpf(fac) * mpmath.mpf(u) ** (-mpmath.mpf(D) / 2) * mpmath.mpf(v) ** (-mpmath.mpf(dod))
        if not rel_close(jac, float(ex), 1e-12 * (4 + D + abs(dod))):
            bad.append("jacobian = %r, normalisation * u^(-D/2) * v^(-dod) = %r" % (jac, float(ex)))
        # invariance under the internal rescaling: the same value from the UNRESCALED parameters
        if not all(math.isfinite(t) for t in SC.floats(fi["x_pre"])):
            skipped += 1
            continue
        xpre = [Fr(t) for t in SC.floats(fi["x_pre"])]
        shifts = [[Fr(s) for s in sh] for sh in n["shifts"]]
        masses = [Fr(mm) for mm in n["masses"]]
        Vp, ratio, Lm, _, _ = X.v_poly(xpre, n["sig"], shifts, masses)
        Up = X.det(Lm)
        kap = X.cond_estimate(Lm)
        if ratio is None or kap is None or ratio * kap > Fr(10) ** 7 or Vp <= 0 or Up <= 0:
            skipped += 1
        else:
            ut, vt = b2f(fi["utrop_pre"]), b2f(fi["vtrop_pre"])
            un = mpmath.mpf(fac) * (mpmath.mpf(ut) / (mpmath.mpf(Up.numerator) / Up.denominator)) ** (mpmath.mpf(D) / 2) \
                * (mpmath.mpf(vt) / (mpmath.mpf(Vp.numerator) / Vp.denominator)) ** mpmath.mpf(dod)
            if not rel_close(jac, float(un), 1e-10 * float(ratio * kap) * (4 + D + abs(dod))):
                bad.append("jacobian = %r, but I_tr.. (U_tr/U)^(D/2) (V_tr/V)^dod at the unrescaled parameters = %r" % (jac, float(un)))
            # the same with the TRUE tropical polynomials (largest monomials of U and F, brute force), not the logged ones
            ext = set(c["externals"])
            allv = {v for pr in n["pairs"] for v in pr}
            if E <= 7 and ext <= allv and (len(ext) >= 2 or (len(ext) == 0 and any(e[2] for e in c["edges"]))):
                trees = G.spanning_trees(n["pairs"])
                Ut = None
                for T in trees:
                    pr_ = Fr(1)
                    for e in range(E):
                        if e not in T:
                            pr_ *= xpre[e]
                    Ut = pr_ if Ut is None or pr_ > Ut else Ut
                Fm = c07.f_monomial_max(c, xpre, trees)
                if Ut is not None and Fm is not None:
                    Vt = Fm / Ut
                    un2 = mpmath.mpf(fac) * (mpmath.mpf(Ut.numerator) / Ut.denominator / (mpmath.mpf(Up.numerator) / Up.denominator)) ** (mpmath.mpf(D) / 2) \
                        * (mpmath.mpf(Vt.numerator) / Vt.denominator / (mpmath.mpf(Vp.numerator) / Vp.denominator)) ** mpmath.mpf(dod)
                    if not rel_close(jac, float(un2), 1e-9 * float(ratio * kap) * (4 + D + abs(dod))):
                        bad.append("jacobian = %r, but normalisation x (U_tr/U)^(D/2) (V_tr/V)^dod with the true tropical polynomials "
                                   "(largest monomials, brute force) at the unrescaled parameters = %r" % (jac, float(un2)))
        if bad:
            rep.violation("property", "; ".join(bad[:3]), case=c, failing_input=True, what="jacobian formula / rescaling invariance fails")
        rep.sample(dict(family=c["family"], D=D, L=L, dod=dod, jacobian=jac, u=u, v=v))
    rep.cov["skipped_ill_conditioned_or_degenerate"] = skipped
    rep.cov["rule"] = ("accepted connected graphs, D=1..6 (odd and even), 1..4 loops, generic shifts; jacobian, u, v, u_trop, v_trop vs the Coq model; jacobian vs the model's formula "
                       "on the implementation's own u, v; the normalisation constant vs exact I_tr and 50-digit Gamma/pi; then in 40-digit arithmetic: normalisation*u^(-D/2)*v^(-dod), and the same value recomputed from the UNRESCALED "
                       "parameters with exact U, V (tolerance scaled by exact kappa*cancellation; above 1e7 skipped). non-trivial = odd D or L>=2")
