# C17 -- sampling is a pure function of its arguments.
from common import *
import graphs as G, samplecorr as SC


def strip(o):
    """numerical content of one call result (bits), metadata presence aside"""
    if not isinstance(o, dict):
        return o
    if "panic" in o:
        return dict(panic=True)
    if not o.get("ok"):
        return dict(err=o.get("err"))
    out = {k: canon_bits(o[k][0]) for k in ["u_trop", "v_trop", "u", "v", "jacobian"]}          # NaN payload/sign is not a value
    out["loop_momenta"] = [[canon_bits(comp[0]) for comp in vec] for vec in o["loop_momenta"]]
    return out


def gen_history(r, c, nops):
    E, L, D = len(c["edges"]), c["L"], c["D"]
    dim = G.num_variables(E, L, D)
    ops = []
    pts = [[f2b(r.open_unit()) for _ in range(dim)] for _ in range(max(2, nops // 6))]
    # neighbours: a point that differs from a pool point in ONE coordinate by a few 1e-4 (the Gamma coordinate 2E-2 half of the
    # time): a call that follows its neighbour on the same thread must not inherit anything from it
    for base in list(pts):
        if r.chance(0.6):
            q = list(base)
            j = 2 * E - 2 if (r.chance(0.5) and 2 * E - 2 < dim) else r.below(dim)
            v = b2f(q[j]) + (1 if r.chance(0.5) else -1) * 4e-4 * (0.1 + 0.9 * r.unit())
            q[j] = f2b(min(max(v, 2.0**-40), 1 - 2.0**-40))
            pts.append(q)
    for i in range(nops):
        k = r.below(10)
        st = dict(stability=r.choice([None, None, f2b(1e-5), f2b(0.0), f2b(1e-16)]), debug=r.chance(0.3), metadata=r.chance(0.5))   # 0 and 1e-16: the test mostly rejects
        if k < 2:
            draws = [r.u64() for _ in range(dim)]
            if r.chance(0.25):
                draws[r.below(dim)] = r.below(2048)        # a generator word below 2^11 is the uniform number 0.0 exactly
            ops.append(dict(kind="rng", draws=draws, edge_data=c["edge_data"], **st))
        else:
            ops.append(dict(kind="point", scalar=("inst" if r.chance(0.2) else "f64"), point=r.choice(pts), edge_data=c["edge_data"], **st))
    return ops


def run(rep, rng, tier, replay=None):
    ncase = 30 if tier == "quick" else 120
    cases = []
    for i in range(ncase):
        r = rng.fork()
        c = SC.gen_sample_case(r, emax=5, Ds=(1 + i % 6,))      # every dimension, hence every parity of D x L, in every run
        c["ops"] = gen_history(r, c, r.range(40, 90) if tier == "quick" else r.range(100, 400))
        c["threads"] = [1, 2, 4, 8, 16][i % 5]
        cases.append(c)
    res1 = harness("history", dict(cases=cases), timeout=900)["results"]
    res2 = harness("history", dict(cases=cases), timeout=900)["results"]       # a second process: other ahash seeds
    nops = 0
    for c, o, o2 in zip(cases, res1, res2):
        if "results" not in o:
            rep.violation("machinery", "history harness: %s" % str(o)[:300], case=dict(c, ops=c["ops"][:2]))
            continue
        E, L, D = len(c["edges"]), c["L"], c["D"]
        dim = G.num_variables(E, L, D)
        if not o["sampler_unchanged"]:
            rep.violation("property", "the sampler's serialisation changed after sampling", case=dict(c, ops=c["ops"][:3]), failing_input=True)
        by_point = {}
        for i, (op, a, fr, b2) in enumerate(zip(c["ops"], o["results"], o["fresh"], o2["results"])):
            nops += 1
            small = dict(c, ops=[op], threads=1)
            rep.count([c["edges"], op.get("point") or op.get("draws"), op["metadata"], op["debug"], c["threads"]], c["threads"] > 1 or i > 0)
            if strip(a) != strip(fr):
                rep.violation("property", "op %d on the shared sampler (%d threads, after %d earlier calls) differs from the same call on a fresh sampler" % (i, c["threads"], i),
                              case=dict(c, ops=c["ops"][:i + 1]), failing_input=True, what="result depends on call history / threads")
            if strip(a) != strip(b2):
                rep.violation("property", "op %d differs between two processes" % i, case=small, failing_input=True)
            if a.get("ok") and a["has_metadata"] != op["metadata"]:
                rep.violation("property", "metadata presence does not follow return_metadata", case=small, failing_input=True)
            if op["kind"] == "rng":
                if a.get("rng_draws") != dim:
                    rep.violation("property", "generate_sample_from_rng drew %s numbers, get_dimension() = %d" % (a.get("rng_draws"), dim), case=small, failing_input=True)
                # what from_x_space_point returns for those numbers
                pt = [f2b((d >> 11) * 2.0**-53) for d in op["draws"]]
                key = json.dumps([pt, op["stability"]])
                by_point.setdefault(key, []).append(("rng", i, strip(a), op))
            else:
                key = json.dumps([op["point"], op["stability"]])
                by_point.setdefault(key, []).append(("pt", i, strip(a), op))
        # same point + same stability setting => identical numbers whatever metadata/debug flags, scalar wrapper, position
        for key, lst in by_point.items():
            for kind, i, s_, op in lst[1:]:
                if s_ != lst[0][2]:
                    rep.violation("property", "ops %d and %d use the same point and stability setting but differ (flags %s vs %s)" % (
                        lst[0][1], i, (lst[0][3]["metadata"], lst[0][3]["debug"]), (op["metadata"], op["debug"])),
                        case=dict(c, ops=[lst[0][3], op], threads=1), failing_input=True, what="return_metadata/print_debug_info/history changes the numerical result")
        rep.sample(dict(graph=c["family"], threads=c["threads"], ops=len(c["ops"]), first_op={k: v for k, v in c["ops"][0].items() if k != "edge_data"}))
    # different samplers used at the same time from different threads (all cases at once, one thread per case plus the case's own
    # threads): every result must be what the sequential run gave
    def concurrent(payload):
        # a few hundred OS threads: when the machine refuses them this is no statement about the code
        try:
            return harness("history", payload, timeout=900, mem_kb=64 * 1024 * 1024)["results"]
        except CheckError as e:
            if any(w in str(e) for w in ("memory allocation", "failed to spawn thread", "Resource temporarily unavailable", "os error 11", "exited 75")):
                rep.cov.setdefault("concurrent_runs_skipped", []).append(str(e)[:200])
                return [dict(skipped=True) for _ in payload["cases"]]
            raise
    res3 = concurrent(dict(cases=cases, parallel_cases=True))
    ncross = 0
    for ci, (c, o, o3) in enumerate(zip(cases, res1, res3)):
        if "results" not in o or "results" not in o3:
            if "results" in o and not o3.get("skipped"):
                rep.violation("machinery", "history harness (parallel cases): %s" % str(o3)[:300], case=dict(c, ops=c["ops"][:2]))
            continue
        hit = None
        for grp in ("results", "fresh", "restored_json", "restored_cbor", "restored_compact"):
            for i, (a, a3) in enumerate(zip(o[grp], o3[grp])):
                ncross += 1
                if strip(a) != strip(a3) and hit is None:
                    hit = (grp, i)
        if hit:
            others = [dict(edges=d["edges"], D=d["D"]) for d in cases[:ci][-2:] + cases[ci + 1:ci + 3]]
            rep.violation("property", "op %d (%s) gives another result when other samplers are being sampled in other threads at the same time" % (hit[1], hit[0]),
                          case=dict(c, ops=c["ops"][:hit[1] + 1], concurrently_with=others), failing_input=True,
                          what="the result of a call depends on what other threads do with OTHER samplers (process-wide state)")
    # the same, tightly: one thread per sampler, barrier-started, many passes over the first calls of each history
    rounds = 150 if tier == "quick" else 600
    sc = [dict(c, ops=c["ops"][:16], stress_ops=16, stress_rounds=rounds) for c in cases]
    res4 = concurrent(dict(cases=sc, stress=True))
    for c, o, o4 in zip(cases, res1, res4):
        if "results" not in o:
            continue
        if o4.get("skipped"):
            continue
        if "distinct" not in o4:
            rep.violation("machinery", "history harness (stress): %s" % str(o4)[:300], case=dict(c, ops=c["ops"][:2]))
            continue
        for i, (a, ds) in enumerate(zip(o["results"], o4["distinct"])):
            ncross += rounds
            wrong = [d for d in ds if strip(d) != strip(a)]
            if wrong:
                others = [dict(edges=d["edges"], D=d["D"]) for d in cases if d is not c][:3]
                rep.violation("property", "op %d gives %d different results over %d repetitions while other samplers are sampled in other threads (sequential: %s, seen: %s)" % (
                    i, len(ds), rounds, str(strip(a))[:80], str(strip(wrong[0]))[:80]),
                    case=dict(c, ops=c["ops"][:i + 1], concurrently_with=others, stress_rounds=rounds), failing_input=True,
                    what="the result of a call depends on what other threads do with OTHER samplers (process-wide state)")
                break
    rep.cov["cross_sampler_concurrent_calls"] = ncross
    # from_rng vs from_point on the recorded draws
    pcs, refs = [], []
    for c, o in zip(cases, res1):
        if "results" not in o:
            continue
        for op, a in zip(c["ops"], o["results"]):
            if op["kind"] == "rng" and len(pcs) < 60:
                c2 = {k: v for k, v in c.items() if k not in ("ops", "threads")}
                c2["point"] = [f2b((d >> 11) * 2.0**-53) for d in op["draws"]]
                c2["stability"], c2["debug"], c2["metadata"] = op["stability"], False, False
                pcs.append(c2)
                refs.append(strip(a))
    if pcs:
        pr = harness("sample", dict(cases=pcs), timeout=600)["results"]
        for c2, ref, o in zip(pcs, refs, pr):
            f = o["f64"]
            got = strip(dict(f, ok=f.get("ok"))) if "panic" not in f else dict(panic=True)
            if got != ref:
                rep.violation("property", "generate_sample_from_rng differs from generate_sample_from_x_space_point on the numbers it drew", case=c2, failing_input=True)
    # static side of the tie (a lint, not a proof)
    import re, glob
    pat = re.compile(r"\bunsafe\b|\bstatic\s+mut\b|thread_local!|\bRefCell\b|\bCell<|\bMutex\b|\bRwLock\b|Atomic[A-Z]|OnceCell|OnceLock|lazy_static|\bstatic\s+[A-Z_]+\s*:")
    hits = []
    for fpath in glob.glob(os.path.join(REPO, "src", "*.rs")):
        for ln, line in enumerate(open(fpath), 1):
            code = line.split("//")[0]
            if pat.search(code):
                hits.append("%s:%d: %s" % (os.path.basename(fpath), ln, line.strip()[:80]))
    rep.cov["static_scan_hits"] = hits
    if hits:
        rep.violation("proof-obligation", "the purity argument of the state-machine model assumes no unsafe/static/interior mutability in src/: " + "; ".join(hits[:5]))
    rep.cov["operations"] = nops
    rep.cov["rule"] = ("%d samplers, each with a random history of 50-500 mixed calls (from_point at f64/Inst, from_rng with a replaying counting RNG; all settings combinations, the "
                       "stability test off / 1e-5 / tolerances 0 and 1e-16 at which it mostly rejects) run on ONE shared sampler from 1/2/4/8/16 barrier-started threads; every output compared bit for bit with the same call on a freshly built "
                       "sampler and with a second process; calls with equal point+stability must agree whatever the flags; from_rng must draw get_dimension() numbers and equal from_point "
                       "on them; all cases once more AT THE SAME TIME (one thread per sampler) against the sequential results; serialisation before == after. non-trivial = not the first call of a single-threaded history" % ncase)
    rep.assumptions.append("real data races / OS scheduling are not exhibited by the model; the claim for them rests on &self + Sync typing (static assertion in the harness) and the static scan")
