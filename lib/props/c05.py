# C05 -- build_sampler rejects exactly the graphs with a divergent proper subgraph.
from common import *
import graphs as G, tablecorr as TC
from fractions import Fraction


def boundary_cases(r):
    """omega exactly 0 / exactly representable boundaries"""
    out = []
    for D in range(1, 7):
        # massless bubble weights (a, b): omega({e1}) = a - dod = a - (a+b-D/2) = D/2 - b
        for b in [D / 2.0, D / 2.0 - 0.125, D / 2.0 + 0.125]:
            if b > 0:
                out.append(dict(edges=[[0, 1, False, f2b(1.0)], [0, 1, False, f2b(b)]], externals=[0, 1], D=D))
        # UV side: massive tadpole pair: omega({e}) = w - D/2
        for w in [D / 2.0, D / 2.0 + 0.125, max(0.125, D / 2.0 - 0.125)]:
            out.append(dict(edges=[[0, 0, True, f2b(w)], [0, 0, True, f2b(1.0)]], externals=[0], D=D))
    return out


def critical_variants(r, n, emax):
    """verdict-critical graphs: an accepted graph (connected or not, any externals) in which the weight of one edge of one of its
    most nearly divergent proper subsets is moved so that this subset's omega becomes +1/16 or -1/16: the verdict then hinges on
    the table entry of that one subset (its loop number, its spanning flag, the overall degree of divergence)"""
    out = []
    for _ in range(n):
        g = G.gen_accepted(r.fork(), emax=emax, connected=False)
        tab, dod, L = G.exact_table(g)
        E = len(g["edges"])
        if E < 2:
            continue
        srt = sorted(range(1, len(tab) - 1), key=lambda gid: tab[gid][2])
        ids = srt[:4]
        disc = [gid for gid in srt[:12] if len(G.uf_components(g["edges"], [e for e in range(E) if gid >> e & 1])[0]) > 1]
        gid = r.choice(disc) if disc and r.chance(0.5) else r.choice(ids)      # half of the time a DISCONNECTED subset decides
        es = [e for e in range(E) if gid >> e & 1]
        e = r.choice(es)
        delta = Fraction(1, 16) * (1 if r.chance(0.5) else -1)
        # omega(gid) is affine in w_e with slope 1 (non-spanning) or 0 (spanning: w_e cancels against dod) -- try, the oracle decides
        a, b, m, w = g["edges"][e]
        w2 = float(Fraction(w) - tab[gid][2] + delta)
        if not (w2 > 1.0 / 64):
            continue
        g2 = dict(g, edges=[ed if k != e else (a, b, m, w2) for k, ed in enumerate(g["edges"])])
        out.append(G.to_case(g2))
    return out


def search_flip(rep, prof, c, o, tab):
    """the accepted table holds a wrong omega at some subset: look for a graph on which that costs the verdict -- move one weight
    so that the TRUE omega of that subset becomes -1/16 and see whether the implementation still accepts"""
    g = TC.case_graph(c)
    E = len(g["edges"])
    wrong = [gid for gid in range(1, len(tab) - 1) if not rel_close(b2f(o["dod_bits"][gid]), float(tab[gid][2]), 1e-9, 1e-12)]
    wrong.sort(key=lambda gid: tab[gid][2])        # the wrong entry with the smallest true omega is the first to cross zero
    for gid in wrong[:6]:
        for e in range(E):
            a, b, m, w = g["edges"][e]
            g1 = dict(g, edges=[ed if k != e else (a, b, m, float(Fraction(w) + 1)) for k, ed in enumerate(g["edges"])])
            slope = G.exact_table(g1)[0][gid][2] - tab[gid][2]
            if slope == 0:
                continue
            for target in (Fraction(-1, 16), Fraction(-1, 256), Fraction(-1, 4096)):      # a wrong omega that is too large by the (small) dod needs a small target
                w2 = Fraction(w) + (target - tab[gid][2]) / slope
                if w2 <= Fraction(1, 64):
                    continue
                g2 = dict(g, edges=[ed if k != e else (a, b, m, float(w2)) for k, ed in enumerate(g["edges"])])
                tab2, _, _ = G.exact_table(g2)
                div2 = G.divergent_subsets(tab2)
                if not div2 or any(abs(t[2]) < Fraction(1, 10**9) and t[2] != 0 for t in tab2[1:-1]):
                    continue
                c2 = G.to_case(g2)
                o2 = harness("table", dict(cases=[c2]), profile=prof, timeout=120)["results"][0]
                if TC.impl_outcome(o2) == "ok":
                    rep.violation("property", "[%s] searched from a wrong table entry (subset %d): this graph is accepted although subset %d has omega = %s <= 0 (exact)" % (
                        prof, gid, div2[0], tab2[div2[0]][2]), case=c2, failing_input=True, what="a divergent graph is accepted")
                    return True
    return False


def run(rep, rng, tier, replay=None):
    cases = []
    if replay and replay.get("chosen", {}).get("case"):
        cases.append(replay["chosen"]["case"])
    n = 200 if tier == "quick" else 2000
    cases += boundary_cases(rng)
    cases += TC.gen_mixed_cases(rng, n, 6 if tier == "quick" else 8, accepted_share=0.45)
    cases += critical_variants(rng, 160 if tier == "quick" else 1000, 6 if tier == "quick" else 7)
    profiles = ["debug"] if tier == "quick" else ["debug", "release"]
    outcomes = {}
    nsearch = {}
    for prof in profiles:
        impl, model = TC.run_tables("C05-" + prof, cases, profile=prof, batch=40)
        # determinism: the same graphs once more, in a separate process (different ahash seeds)
        impl2 = harness("table", dict(cases=cases), profile=prof, timeout=900)["results"]
        for c, o, o2, m in zip(cases, impl, impl2, model):
            g = TC.case_graph(c)
            tab, dod, L = G.exact_table(g)
            div = G.divergent_subsets(tab)
            near = [gid for gid in range(1, len(tab) - 1) if abs(tab[gid][2]) < Fraction(1, 10**9) and tab[gid][2] != 0]
            io = TC.impl_outcome(o)
            outcomes[io] = outcomes.get(io, 0) + 1
            if prof == "debug":
                rep.count(c, len(c["edges"]) >= 2)
            if near:
                continue   # excluded by the property's quantifier
            for cat, msg in TC.diff_tables(c, o, m):
                if cat == "outcome":
                    rep.violation("correspondence", "[%s] %s" % (prof, msg), case=c)
            if json.dumps(o, sort_keys=True) != json.dumps(o2, sort_keys=True):
                rep.violation("property", "[%s] two builds of the same graph (separate processes) differ" % prof, case=c, failing_input=True,
                              what="build is not deterministic")
            # the iff, against the exact subset scan
            if io == "panic":
                rep.violation("property", "[%s] build_sampler panicked on a graph within the size limits: %s" % (prof, o["panic"][:200]), case=c, failing_input=True)
            elif io == "err" and not div:
                rep.violation("property", "[%s] rejected, but no non-empty proper subset has omega <= 0 (exact)" % prof, case=c, failing_input=True)
            elif io == "ok" and div:
                rep.violation("property", "[%s] accepted, but subset %d has omega = %s <= 0 (exact)" % (prof, div[0], tab[div[0]][2]), case=c, failing_input=True)
            elif io == "ok":
                # two budgets: in a massless graph a wrong spanning flag of a disconnected subset can never cost the verdict (the
                # component that carries the externals is a smaller spanning subset), so those must not use up the searches
                bk = "massive" if any(e[2] for e in g["edges"]) else "massless"
                if nsearch.get(bk, 0) < (10 if bk == "massive" else 4) and any(not rel_close(b2f(o["dod_bits"][gid]), float(tab[gid][2]), 1e-9, 1e-12) for gid in range(1, len(tab) - 1)):
                    nsearch[bk] = nsearch.get(bk, 0) + 1
                    rep.violation("correspondence", "[%s] verdict agrees but the accepted table holds a wrong omega; searching for a graph on which the verdict flips" % prof, case=c)
                    search_flip(rep, prof, c, o, tab)
                js = [b2f(x) for x in o["j_bits"]]
                if not all(math.isfinite(x) and x > 0 for x in js):
                    rep.violation("property", "[%s] accepted table has a J value that is not finite and positive" % prof, case=c, failing_input=True)
            rep.sample(dict(case=c, outcome=io, divergent_subsets=div[:3]))
    # known finding: E = 64
    for kf in known_findings("C05"):
        if kf.get("key") == "E=64":
            c64 = dict(edges=[[0, 1, True, f2b(1.0)]] * 64, externals=[0, 1], D=3)
            o = harness("table", dict(cases=[c64]), timeout=120)["results"][0]
            if "panic" in o:
                rep.known.append("64 parallel edges (the documented MAX_EDGES) panic in build_sampler: %s" % o["panic"][:80])
    rep.cov["rule"] = ("45%% accepted graphs, 55%% raw random multigraphs (about half rejected) plus exact boundary cases omega = 0 and +-1/8 for D=1..6, plus verdict-critical variants (one weight of an accepted graph moved so that the omega of one of its most nearly divergent subsets becomes +-1/16); "
                       "outcome compared with the Coq model and with an exact rational subset scan; each graph built twice in separate processes and compared byte for byte; "
                       "profiles: %s. non-trivial = E>=2; subsets with |omega|<1e-9 (exact) are skipped as the property says" % "+".join(profiles))
    rep.cov["outcome_histogram"] = outcomes
