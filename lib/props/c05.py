# C05 -- build_sampler rejects exactly the graphs with a divergent proper subgraph.
from common import *
import graphs as G, tablecorr as TC
from fractions import Fraction


def boundary_cases(r):
    """omega exactly 0 / exactly representable boundaries"""
    out = []
    for D in range(1, 7):
        # massless bubble weights (a, b): omega({e1}) = a - dod = a - (a+b-D/2) = D/2 - b
        for b in [D / 2.0, D / 2.0 - 0.125, D / 2.0 + 0.125]:
            if b > 0:
                out.append(dict(edges=[[0, 1, False, f2b(1.0)], [0, 1, False, f2b(b)]], externals=[0, 1], D=D))
        # UV side: massive tadpole pair: omega({e}) = w - D/2
        for w in [D / 2.0, D / 2.0 + 0.125, max(0.125, D / 2.0 - 0.125)]:
            out.append(dict(edges=[[0, 0, True, f2b(w)], [0, 0, True, f2b(1.0)]], externals=[0], D=D))
    return out


def run(rep, rng, tier, replay=None):
    cases = []
    if replay and replay.get("chosen", {}).get("case"):
        cases.append(replay["chosen"]["case"])
    n = 200 if tier == "quick" else 2000
    cases += boundary_cases(rng)
    cases += TC.gen_mixed_cases(rng, n, 6 if tier == "quick" else 8, accepted_share=0.45)
    profiles = ["debug"] if tier == "quick" else ["debug", "release"]
    outcomes = {}
    for prof in profiles:
        impl, model = TC.run_tables("C05-" + prof, cases, profile=prof, batch=40)
        # determinism: the same graphs once more, in a separate process (different ahash seeds)
        impl2 = harness("table", dict(cases=cases), profile=prof, timeout=900)["results"]
        for c, o, o2, m in zip(cases, impl, impl2, model):
            g = TC.case_graph(c)
            tab, dod, L = G.exact_table(g)
            div = G.divergent_subsets(tab)
            near = [gid for gid in range(1, len(tab) - 1) if abs(tab[gid][2]) < Fraction(1, 10**9) and tab[gid][2] != 0]
            io = TC.impl_outcome(o)
            outcomes[io] = outcomes.get(io, 0) + 1
            if prof == "debug":
                rep.count(c, len(c["edges"]) >= 2)
            if near:
                continue   # excluded by the property's quantifier
            for cat, msg in TC.diff_tables(c, o, m):
                if cat == "outcome":
                    rep.violation("correspondence", "[%s] %s" % (prof, msg), case=c)
            if json.dumps(o, sort_keys=True) != json.dumps(o2, sort_keys=True):
                rep.violation("property", "[%s] two builds of the same graph (separate processes) differ" % prof, case=c, failing_input=True,
                              what="build is not deterministic")
            # the iff, against the exact subset scan
            if io == "panic":
                rep.violation("property", "[%s] build_sampler panicked on a graph within the size limits: %s" % (prof, o["panic"][:200]), case=c, failing_input=True)
            elif io == "err" and not div:
                rep.violation("property", "[%s] rejected, but no non-empty proper subset has omega <= 0 (exact)" % prof, case=c, failing_input=True)
            elif io == "ok" and div:
                rep.violation("property", "[%s] accepted, but subset %d has omega = %s <= 0 (exact)" % (prof, div[0], tab[div[0]][2]), case=c, failing_input=True)
            elif io == "ok":
                js = [b2f(x) for x in o["j_bits"]]
                if not all(math.isfinite(x) and x > 0 for x in js):
                    rep.violation("property", "[%s] accepted table has a J value that is not finite and positive" % prof, case=c, failing_input=True)
            rep.sample(dict(case=c, outcome=io, divergent_subsets=div[:3]))
    # known finding: E = 64
    for kf in known_findings("C05"):
        if kf.get("key") == "E=64":
            c64 = dict(edges=[[0, 1, True, f2b(1.0)]] * 64, externals=[0, 1], D=3)
            o = harness("table", dict(cases=[c64]), timeout=120)["results"][0]
            if "panic" in o:
                rep.known.append("64 parallel edges (the documented MAX_EDGES) panic in build_sampler: %s" % o["panic"][:80])
    rep.cov["rule"] = ("45%% accepted graphs, 55%% raw random multigraphs (about half rejected) plus exact boundary cases omega = 0 and +-1/8 for D=1..6; "
                       "outcome compared with the Coq model and with an exact rational subset scan; each graph built twice in separate processes and compared byte for byte; "
                       "profiles: %s. non-trivial = E>=2; subsets with |omega|<1e-9 (exact) are skipped as the property says" % "+".join(profiles))
    rep.cov["outcome_histogram"] = outcomes
