# C09 -- returned V times U is the second Symanzik polynomial F.
from common import *
import graphs as G, samplecorr as SC, exact as X
from fractions import Fraction as Fr


def conserving_case(r, emax, consistent=False):
    """a sample case whose shifts conserve momentum for external momenta on ALL vertices;
    consistent: all vertices are DECLARED external and every massive-flagged edge has a non-zero mass"""
    c = SC.gen_sample_case(r, emax=emax, ext_all=consistent, all_masses=consistent)
    pairs = [tuple(p) for p in c["oriented_pairs"]]      # orientation the signature refers to
    sig, tree, chords = G.fundamental_signature(pairs)
    ext, p = X.conserving_shifts(r, pairs, c["signature"], tree, c["D"])
    for ed, pe in zip(c["edge_data"], p):
        ed["shift"] = [f2b(float(v)) for v in pe]      # multiples of 1/4: exact
    c["ext_mom"] = {str(v): [str(q) for q in mom] for v, mom in ext.items()}
    return c


def run(rep, rng, tier, replay=None):
    extra = [replay["chosen"]["case"]] if replay and replay.get("chosen", {}).get("case") else []
    n = 50 if tier == "quick" else 400
    extra += [conserving_case(rng.fork(), 6 if tier == "quick" else 7) for _ in range(n)]
    got = SC.standard_run(rep, rng, tier, "C09", ["v", "u_vectors"], 1e-9, n_quick=20, n_thorough=150,
                          nontrivial=lambda c: c["L"] >= 2 or any(ed["mass"] is not None for ed in c["edge_data"]), extra_cases=extra, emax=6)
    reroute = []
    skipped = 0
    for c, fi, m, o, timpl in got:
        n_ = SC.case_numbers(c)
        if not all(math.isfinite(b2f(v)) and b2f(v) > 0 for v in fi["x"]):
            skipped += 1          # Feynman parameters over/underflowed: outside the property's quantifier
            continue
        x = [Fr(b2f(v)) for v in fi["x"]]
        shifts = [[Fr(s) for s in sh] for sh in n_["shifts"]]
        masses = [Fr(mm) for mm in n_["masses"]]
        v, ratio, Lm, inv, us = X.v_poly(x, n_["sig"], shifts, masses)
        bad = []
        uv = SC.floats(fi["u_vectors"])
        D = c["D"]
        for l in range(c["L"]):
            for d in range(D):
                scale = float(sum(abs(x[e] * shifts[e][d]) for e in range(len(x)))) + 1e-300
                if abs(uv[l * D + d] - float(us[l][d])) > 1e-12 * scale:
                    bad.append("u_vectors[%d][%d] = %r, sum_e s_el x_e p_e = %r" % (l, d, uv[l * D + d], float(us[l][d])))
        kap0 = X.cond_estimate(Lm)
        if ratio is None or ratio > Fr(10) ** 8 or kap0 is None or kap0 > Fr(10) ** 10:
            skipped += 1          # beyond the condition numbers the property quantifies over (results may be NaN there)
        else:
            tol = 1e-11 * max(1.0, float(ratio)) * max(1.0, float(X.cond_estimate(Lm) or 1))
            if not rel_close(b2f(fi["v"]), float(v), tol):
                bad.append("v = %r, exact sum x(m^2+p^2) - u^T L^-1 u = %r [cancellation %.3g]" % (b2f(fi["v"]), float(v), float(ratio)))
            if "ext_mom" in c and len(n_["pairs"]) <= 7:
                ext = {int(k): [Fr(q) for q in mom] for k, mom in c["ext_mom"].items()}
                F, U, mono, nT = X.f_by_forests(n_["pairs"], x, ext, masses)
                if not rel_close(b2f(fi["v"]) * b2f(fi["u"]), float(F), 10 * tol):
                    bad.append("v*u = %r, 2-forest sum + U sum m^2 x = %r" % (b2f(fi["v"]) * b2f(fi["u"]), float(F)))
        if bad:
            rep.violation("property", "; ".join(bad[:3]), case=c, failing_input=True, what="V differs from F/U")
        rep.sample(dict(family=c["family"], L=c["L"], D=D, v=b2f(fi["v"]), massive=[ed["mass"] is not None for ed in c["edge_data"]]))
        if len(reroute) < (15 if tier == "quick" else 100):
            reroute.append((c, fi))
    # routing invariance: basis change + orientation flips + constant loop-momentum offsets
    cases2 = []
    for c, fi in reroute:
        r = rng.fork()
        c2 = json.loads(json.dumps(c))
        L, D = c["L"], c["D"]
        M = G.random_unimodular(r, L, steps=3)
        sig = G.change_basis(c["signature"], M)
        flips = [r.chance(0.4) for _ in sig]
        sig = [[-v for v in row] if fl else row for row, fl in zip(sig, flips)]
        a = [[r.range(-4, 4) / 4.0 for _ in range(D)] for _ in range(L)]
        for e, (ed, fl) in enumerate(zip(c2["edge_data"], flips)):
            sh = [b2f(v) for v in ed["shift"]]
            if fl:
                sh = [-v for v in sh]
            sh = [sh[d] + sum(sig[e][l] * a[l][d] for l in range(L)) for d in range(D)]
            ed["shift"] = [f2b(v) for v in sh]
        c2["signature"] = sig
        cases2.append(c2)
    if cases2:
        res2 = harness("sample", dict(cases=cases2), timeout=600)["results"]
        for (c, fi), c2, o2 in zip(reroute, cases2, res2):
            f2 = SC.impl_fields(o2["f64"]) if "f64" in o2 else dict(tag="panic")
            rep.count(["reroute", c2["edges"], c2["signature"], c2["point"]], True)
            x = [Fr(b2f(v)) for v in fi["x"]]
            worst = Fr(1)
            for cc in (c, c2):
                nn = SC.case_numbers(cc)
                vv, ratio, Lm, _, _ = X.v_poly(x, nn["sig"], [[Fr(s) for s in sh] for sh in nn["shifts"]], [Fr(mm) for mm in nn["masses"]])
                kap = X.cond_estimate(Lm)
                worst = None if (worst is None or ratio is None or kap is None) else max(worst, ratio * kap)
            if worst is None or worst > Fr(10) ** 7 or not all(math.isfinite(b2f(fi[k])) and b2f(fi[k]) > 0 for k in ["u", "v", "jacobian"]):
                skipped += 1      # beyond the condition numbers the property quantifies over (a pivot may round to <= 0 there)
                continue
            if f2["tag"] != "ok":
                rep.violation("property", "sampling fails after re-routing (kappa x cancellation %.3g): %s" % (float(worst), str(f2)[:200]), case=c2, failing_input=True)
                continue
            for k in ["u", "v", "jacobian"]:
                if not rel_close(b2f(f2[k]), b2f(fi[k]), 1e-10 * float(worst) * max(1.0, abs(b2f(c["edges"][0][3])) * 4)):
                    rep.violation("property", "%s depends on the loop-momentum routing: %r vs %r" % (k, b2f(fi[k]), b2f(f2[k])), case=c2, failing_input=True)
    rep.cov["skipped_ill_conditioned"] = skipped
    rep.cov["rule"] = ("accepted connected graphs, 1..4 loops, masses on massive edges, D=1..6; most cases with momentum-conserving shifts (external momenta on all "
                       "vertices, multiples of 1/4, routed through a spanning tree plus a random loop offset) so that v*u is compared with the brute-force 2-forest sum; "
                       "v and u_vectors vs the Coq model and vs exact rationals (tolerance 1e-11 * exact cancellation ratio * kappa; ratio>1e8 skipped); then u, v, jacobian "
                       "under a random unimodular re-routing with orientation flips and loop-momentum offsets. non-trivial = L>=2 or a massive edge")
