# C20 -- Vector and f64 scalar primitives implement their componentwise definitions.
# Correspondence: bit-exact, no oracle needed (+ - * / sqrt abs are IEEE in both worlds).
import math
from common import *

SPECIAL = [0.0, -0.0, 1.0, -1.0, 2.0**53, 2.0**53 + 2, 1e308, -1e308, 5e-324, -5e-324, 2.2250738585072014e-308,
           1.7976931348623157e308, 0.1, 1.0 / 3.0, 2.0**-1074, 1 + 2.0**-52, 1 - 2.0**-53]


def rand_float(r):
    k = r.below(10)
    if k == 0:
        return r.choice(SPECIAL)
    if k == 1:   # whole exponent range
        return b2f(r.u64() & 0xFFEFFFFFFFFFFFFF if ((r.u64() >> 52) & 0x7FF) == 0x7FF else r.u64()) if False else finite_bits(r)
    if k == 2:   # subnormal
        return math.copysign(b2f(r.u64() & ((1 << 52) - 1)), -1 if r.chance(0.5) else 1)
    if k == 3:   # small integers (exact arithmetic, ties)
        return float(r.range(-8, 8))
    if k == 4:   # near 2^53: re-association visible
        return math.copysign(2.0**53 + 2 * r.range(0, 4), -1 if r.chance(0.5) else 1)
    return (r.unit() - 0.5) * 10.0 ** r.range(-3, 3)


def finite_bits(r):
    while True:
        x = b2f(r.u64())
        if x == x and not math.isinf(x):
            return x


def cancel_vectors(r, d):
    """u.v with heavy cancellation: order of accumulation is visible."""
    u = [rand_float(r) for _ in range(d)]
    v = [1.0 for _ in range(d)]
    if d >= 3:
        big = 2.0 ** r.range(40, 60)
        i, j = 0, d - 1
        u[i], u[j] = big, -big
        for k in range(1, d - 1):
            u[k] = float(r.range(1, 3))
    return u, v


def model_vec_expr(c):
    return "(render_vec %d %s %s %s)" % (c["d"], coq_flist([b2f(x) for x in c["u"]]),
                                          coq_flist([b2f(x) for x in c["v"]]), coq_float(b2f(c["c"])))


def model_sc_expr(c):
    return "(render_scalar %s %s %s)" % (coq_float(b2f(c["x"])), coq_float(b2f(c["y"])), coq_Z(c["n"]))


PRELUDE = """
From MT Require Import Model.Scalar Model.F64 Model.Vector.
Definition S0 := F64 [].
Definition render_vec (d : nat) (u v : list float) (c : float) : list Z :=
  map bits_of (vadd S0 u v) ++ map bits_of (vsub S0 u v) ++ map bits_of (vscale S0 u c)
  ++ map bits_of (vadd_assign S0 u v) ++ map bits_of (vzero S0 d)
  ++ [bits_of (dot S0 u v); bits_of (dot S0 v u); bits_of (squared S0 u); bits_of (s_zero S0)].
Definition render_scalar (x y : float) (n : Z) : list Z :=
  [bits_of (s_inv S0 x); bits_of (s_of_Z S0 n); bits_of (s_of_c S0 y); bits_of (s_to_c S0 x);
   bits_of (s_pi S0); bits_of (s_zero S0); bits_of (s_one S0); bits_of (s_abs S0 x); bits_of (s_sqrt S0 x)].
"""


def impl_vec_flat(o, c):
    cb = lambda xs: [canon_bits(x) for x in xs]
    return cb(o["add"]) + cb(o["sub"]) + cb(o["scale_val"]) + cb(o["add_assign"]) + cb(o["new"]) + \
        [canon_bits(o["dot"]), canon_bits(o["dot_rev"]), canon_bits(o["squared"]), canon_bits(o["zero"])]


def impl_sc_flat(o):
    return [canon_bits(o[k]) for k in ["inv", "from_isize", "from_f64", "to_f64", "pi", "zero", "one", "abs", "sqrt"]]


def nontrivial_vec(c):
    """re-association or a different accumulation start would change a bit of dot/squared."""
    u = [b2f(x) for x in c["u"]]
    v = [b2f(x) for x in c["v"]]
    if len(u) < 2:
        return all(x == 0 and math.copysign(1, x) < 0 for x in u)  # -0 start visible
    def fold(pairs, start):
        acc = start
        for a, b in pairs:
            acc = acc + a * b
        return acc
    fw = fold(zip(u, v), 0.0)
    bw = fold(reversed(list(zip(u, v))), 0.0)
    neg = fold(zip(u, v), -0.0)
    return f2b(fw) != f2b(bw) or f2b(fw) != f2b(neg)


def run(rep, rng, tier, replay=None):
    n_vec = 400 if tier == "quick" else 6000
    n_sc = 200 if tier == "quick" else 3000
    cases = []
    if replay and replay.get("chosen", {}).get("case"):
        cases.append(replay["chosen"]["case"])
    for i in range(n_vec):
        d = 1 + i % 8
        r = rng.fork()
        if i % 3 == 0:
            u, v = cancel_vectors(r, d)
            if r.chance(0.5):
                u, v = v, u
        else:
            u = [rand_float(r) for _ in range(d)]
            v = [rand_float(r) for _ in range(d)]
        cases.append(dict(kind="vec", d=d, u=[f2b(x) for x in u], v=[f2b(x) for x in v], c=f2b(rand_float(r))))
    for i in range(n_sc):
        r = rng.fork()
        n = r.choice([0, 1, -1, 2, -2, 2**53, -(2**53), 2**53 - 1, 2**53 + 1, 2**62 + 12345, -(2**62) - 1, r.range(-1000, 1000),
                      r.u64() >> r.range(1, 40), -(r.u64() >> r.range(1, 40))])
        x = rand_float(r)
        cases.append(dict(kind="scalar", x=f2b(x), y=f2b(rand_float(r)), n=n))
    impl = harness("vector", dict(cases=cases))["results"]
    exprs = [model_vec_expr(c) if c["kind"] == "vec" else model_sc_expr(c) for c in cases]
    model = run_model("C20", [], PRELUDE, exprs, batch=100)
    hist = {}
    for c, o, m in zip(cases, impl, model):
        if "panic" in o:
            rep.violation("correspondence", "implementation panicked: %s" % o["panic"], case=c, failing_input=True,
                          what="Vector primitive panics on a finite input")
            continue
        if c["kind"] == "vec":
            hist[c["d"]] = hist.get(c["d"], 0) + 1
            rep.count(c, nontrivial_vec(c))
            got = impl_vec_flat(o, c)
            if got != m:
                # the model value is theorem-backed (C20_ops, C20_dot_from_index_0): a difference is a failing input
                rep.violation("correspondence", "Vector primitives differ from the componentwise definition: impl %s model %s" % (got, m),
                              case=c, failing_input=True, what="vector op != componentwise IEEE result")
            # the rest of the API: constructors round-trip, index, len
            cb = lambda xs: [canon_bits(x) for x in xs]
            uu, vv = cb(c["u"]), cb(c["v"])
            for k in ["from_vec", "from_array", "from_slice", "index"]:
                if cb(o[k]) != uu:
                    rep.violation("property", "constructor/getter %s does not round-trip" % k, case=c, failing_input=True)
            if cb(o["index_mut"]) != vv or o["len"] != c["d"] or cb(o["new_from_num"]) != [0] * c["d"] or cb(o["scale_ref"]) != cb(o["scale_val"]):
                rep.violation("property", "index_mut/len/new_from_num/scale-by-reference disagree with their definition", case=c, failing_input=True)
            if canon_bits(o["squared"]) != canon_bits(b_dot_self(c)):
                pass
        else:
            rep.count(c, True)
            got = impl_sc_flat(o)
            if got != m:
                rep.violation("correspondence", "f64 MomTropFloat methods differ from the model dictionary: impl %s model %s" % (got, m),
                              case=c, failing_input=True, what="f64 scalar primitive != standard library function")
            for k in ["ln", "exp", "cos", "sin", "powf"]:
                if canon_bits(o[k][0]) != canon_bits(o[k][1]):
                    rep.violation("property", "MomTropFloat::%s for f64 differs from f64::%s" % (k, k), case=c, failing_input=True)
            if o["pi"] != o["std_pi"]:
                rep.violation("property", "PI() differs from std::f64::consts::PI", case=c, failing_input=True)
        rep.sample(dict(case=c, impl=o, model=m))
    rep.cov["rule"] = ("vector cases: D=1..8 cycling, components from specials/whole exponent range/subnormals/small ints/near 2^53, "
                       "one third cancellation-heavy; scalar cases: x,y likewise, n over 0, +-1, +-2^53(+-1), up to 2^62. "
                       "non-trivial (vector) = re-associating the dot product or starting it from -0.0 changes a bit; scalar cases all count; distinct by input hash")
    rep.cov["dimension_histogram"] = hist
    rep.cov["bit_exact_rate"] = 1.0 if not rep.violations else None


def b_dot_self(c):
    return 0
