# C16 -- matrix failures are reported: singular gives ZeroDet, the stability test is sound.
from common import *
import graphs as G, samplecorr as SC, exact as X
from fractions import Fraction as Fr
import importlib
c15 = importlib.import_module("props.c15")


def l21_error_exact(Mq, inv_bits, n):
    """L_{2,1} distance between inverse*matrix and the identity, from the returned inverse, in high precision"""
    import mpmath
    mpmath.mp.dps = 40
    Inv = [[Fr(b2f(inv_bits[i * n + j])) for j in range(n)] for i in range(n)]
    P = X.matmul(Inv, Mq)
    tot = mpmath.mpf(0)
    for j in range(n):
        s = sum((P[i][j] - (1 if i == j else 0)) ** 2 for i in range(n))
        tot += mpmath.sqrt(mpmath.mpf(s.numerator) / s.denominator)
    return float(tot)


def l21_error_f64(m_bits, inv_bits, n):
    """the error exactly as the routine evaluates it in binary64: (inverse*M - 1) with row-by-column accumulation
    from 0.0, then sum over columns of sqrt(sum of squares)"""
    M = [b2f(v) for v in m_bits]
    I = [b2f(v) for v in inv_bits]
    res = 0.0
    Z = [[0.0] * n for _ in range(n)]
    for r in range(n):
        for c in range(n):
            acc = 0.0
            for k in range(n):
                acc = acc + I[r * n + k] * M[k * n + c]
            Z[r][c] = acc - (1.0 if r == c else 0.0)
    for j in range(n):
        vn = 0.0
        for i in range(n):
            vn = vn + Z[i][j] * Z[i][j]
        res = res + math.sqrt(vn)
    return res


def special_cases():
    out = []
    for tol in [None, 1e-5]:
        st = f2b(tol) if tol is not None else None
        out.append(dict(n=1, m=[f2b(-1.0)], stability=st, kind="indefinite-1x1"))
        out.append(dict(n=2, m=[f2b(1e-200), 0, 0, f2b(1e-200)], stability=st, kind="det-underflow"))
        out.append(dict(n=2, m=[f2b(1.0), f2b(2.0), f2b(2.0), f2b(1.0)], stability=st, kind="indefinite"))
        out.append(dict(n=2, m=[f2b(1.0), f2b(1.0), f2b(1.0), f2b(1.0)], stability=st, kind="semidefinite"))
        out.append(dict(n=3, m=[f2b(v) for v in [4, 2, 2, 2, 1, 1, 2, 1, 5]], stability=st, kind="semidefinite"))
        out.append(dict(n=2, m=[NAN_BITS, f2b(1.0), f2b(1.0), f2b(2.0)], stability=st, kind="nan"))
        out.append(dict(n=2, m=[f2b(math.inf), f2b(1.0), f2b(1.0), f2b(2.0)], stability=st, kind="inf"))
        out.append(dict(n=1, m=[0], stability=st, kind="zero-1x1"))
        out.append(dict(n=2, m=[f2b(1e300), 0, 0, f2b(1e300)], stability=st, kind="det-overflow"))
    return out


def gen_cases(rng, tier):
    cases = special_cases()
    n = 120 if tier == "quick" else 1200
    for i in range(n):
        r = rng.fork()
        dim = 1 + r.below(6)
        kind = r.choice(["spd", "spd-ill", "semidefinite", "indefinite", "nan"])
        if kind in ("spd", "spd-ill"):
            M = c15.rand_spd(r, dim, "cond" if kind == "spd-ill" else "plain")
        elif kind == "semidefinite":
            k = max(1, dim - 1)
            B = [[float(r.range(-2, 2)) for _ in range(k)] for _ in range(dim)]
            M = [[sum(B[i][t] * B[j][t] for t in range(k)) for j in range(dim)] for i in range(dim)]   # integer, rank < dim
        elif kind == "indefinite":
            M = [[float(r.range(-3, 3)) for _ in range(dim)] for _ in range(dim)]
            M = [[(M[i][j] + M[j][i]) / 2 for j in range(dim)] for i in range(dim)]
        else:
            M = c15.rand_spd(r, dim, "plain")
            M[r.below(dim)][r.below(dim)] = r.choice([math.nan, math.inf, -math.inf])
        cases.append(dict(n=dim, m=[f2b(v) for row in M for v in row], stability=None, kind=kind))
    return cases


def run(rep, rng, tier, replay=None):
    base = gen_cases(rng, tier)
    if replay and replay.get("chosen", {}).get("case") and "m" in replay["chosen"]["case"]:
        base.insert(0, replay["chosen"]["case"])
    # first pass with the test off, to learn the model's error; then tolerances below / at / above it
    m0 = run_model("C16a", [], SC.TC.PRELUDE, c15.model_exprs(base), batch=40)
    cases = []
    for c, r in zip(base, m0):
        cases.append(c)
        if c["stability"] is not None:
            continue
        n = c["n"]
        pm = c15.parse_model(c, r)
        if pm["tag"] == "ok":
            Mq = None
            try:
                Mq = [[Fr(b2f(c["m"][i * n + j])) for j in range(n)] for i in range(n)]
                err = l21_error_exact(Mq, pm["inverse"], n)
            except (ValueError, OverflowError, ZeroDivisionError):
                err = None
            tols = [1e-5, 1e-30]
            if err is not None and math.isfinite(err) and err > 0:
                tols += [err * 0.5, err * 2.0]
            ferr = l21_error_f64(c["m"], pm["inverse"], n)
            if math.isfinite(ferr) and ferr > 0:
                # tolerances around the error as the routine itself evaluates it: inside the window between the
                # Frobenius and the L21 norm, exactly at the error (<= vs <), and one ulp on either side
                tols += [ferr * 0.6, ferr * 0.8, ferr * 0.95, ferr, math.nextafter(ferr, 0.0), math.nextafter(ferr, math.inf)]
            for t in tols:
                cases.append(dict(c, stability=f2b(t)))
        else:
            cases.append(dict(c, stability=f2b(1e-5)))
    impl = harness("matrix", dict(cases=cases), timeout=600)["results"]
    model = run_model("C16", [], SC.TC.PRELUDE, c15.model_exprs(cases), batch=40)
    hist = {}
    by_matrix = {}
    for c, o, r in zip(cases, impl, model):
        n = c["n"]
        fi, m = c15.impl_fields(o["f64"]), c15.parse_model(c, r)
        key = "%s/%s/%s" % (c["kind"], "test" if c["stability"] is not None else "notest", fi["tag"])
        hist[key] = hist.get(key, 0) + 1
        rep.count([c["m"], c["stability"]], c["kind"] not in ("spd",) or c["stability"] is not None)
        by_matrix.setdefault(json.dumps([c["n"], c["m"]]), []).append((c, fi["tag"]))
        if fi["tag"] != m["tag"]:
            rep.violation("correspondence", "outcome implementation %s, model %s (kind %s, tol %s)" % (fi["tag"], m["tag"], c["kind"], c["stability"] and b2f(c["stability"])), case=c)
        elif fi["tag"] == "ok":
            for k in ["determinant", "inverse", "q_transposed", "q_transposed_inverse"]:
                msgs = SC.cmp_field(k, fi[k], m[k], 1e-12)
                if msgs:
                    rep.violation("correspondence", "; ".join(msgs[:2]), case=c)
        if fi["tag"] == "panic":
            rep.violation("property", "decompose_for_tropical panicked: %s" % fi["why"][:150], case=c, failing_input=True)
        if fi["tag"] == "MatrixError(Unstable)" or fi["tag"] == "Unstable":
            # soundness in the other direction is not part of C16, but an Unstable verdict with an error that passes is a sign the norm changed
            pass
        if fi["tag"] != "ok":
            continue
        # --- the property on an Ok result
        allf = [fi["determinant"]] + fi["inverse"] + fi["q_transposed"] + fi["q_transposed_inverse"]
        has_nan = any(b2f(v) != b2f(v) for v in allf)
        if b2f(fi["determinant"]) == 0.0:
            rep.violation("property", "Ok returned with determinant exactly 0 (kind %s)" % c["kind"], case=c, failing_input=True, what="Ok with zero determinant")
        if c["stability"] is not None:
            tol = b2f(c["stability"])
            if has_nan:
                rep.violation("property", "stability test enabled (tol %r) but a decomposition containing NaN is returned as Ok" % tol, case=c, failing_input=True,
                              what="NaN decomposition returned as Ok with the stability test on")
            if not has_nan and all(math.isfinite(b2f(v)) for v in allf + c["m"]):
                ferr = l21_error_f64(c["m"], fi["inverse"], n)
                # a margin of n^2 ulps: the property does not fix the order in which the routine rounds the norm
                if ferr > tol * (1 + 4 * n * n * 2.0**-52) + 1e-300:
                    rep.violation("property", "Ok returned although the L21 distance |inverse*M - 1|, evaluated in binary64 as the routine does, "
                                  "is %r > tolerance %r" % (ferr, tol), case=c, failing_input=True, what="stability test lets a too large error pass")
            if False:
                pass
            elif all(math.isfinite(b2f(v)) for v in allf + c["m"]):
                Mq = [[Fr(b2f(c["m"][i * n + j])) for j in range(n)] for i in range(n)]
                err = l21_error_exact(Mq, fi["inverse"], n)
                # the routine evaluates inverse*M - 1 in binary64: its forward error is bounded by
                # ~ n * 2^-53 * sum |inverse||M|; a true distance within that slack of the tolerance cannot be told apart
                mags = sum(abs(b2f(fi["inverse"][i * n + k])) * abs(b2f(c["m"][k * n + j])) for i in range(n) for j in range(n) for k in range(n))
                slack = 8 * n * 2.0**-53 * (mags + n)
                if err > tol * (1 + 1e-6) + slack:
                    rep.violation("property", "Ok returned although |inverse*M - 1|_{2,1} = %r exceeds the tolerance %r" % (err, tol), case=c, failing_input=True)
        rep.sample(dict(n=n, kind=c["kind"], stability=c["stability"] and b2f(c["stability"]), outcome=fi["tag"]))
    # through sample(): with the test enabled an Err(MatrixError) of the decomposition is the result of the sample
    scases = [SC.gen_sample_case(rng.fork(), emax=6, stability=rng.choice([1e-30, 1e-14, 1e-5])) for _ in range(40 if tier == "quick" else 300)]
    for c in scases[:10]:
        c["point"][1] = f2b(1e-300)       # extreme xi: widely spread Feynman parameters
    res = SC.run_samples("C16s", scases)
    for c, x in zip(scases, res):
        o, m = x["impl"], x["model"]
        fi = SC.impl_fields(o["f64"])
        key = "sample/%s" % (fi.get("err") or fi["tag"])
        hist[key] = hist.get(key, 0) + 1
        rep.count(["sample", c["edges"], c["point"], c["stability"]], True)
        if fi["tag"] != m["tag"] or fi.get("err") != m.get("err"):
            rep.violation("correspondence", "sample outcome implementation %s, model %s" % (fi.get("err") or fi["tag"], m.get("err") or m["tag"]), case=c)
        if fi["tag"] == "ok":
            allf = [fi["determinant"]] + fi["inverse"] + fi["q_transposed"] + fi["q_transposed_inverse"]
            if any(b2f(v) != b2f(v) for v in allf):
                rep.violation("property", "sample returned Ok with a NaN decomposition although the stability test is enabled", case=c, failing_input=True)
    # "an exactly zero pivot product yields the ZeroDet error": whatever the stability setting.  The pivot product does not depend
    # on the setting, so a matrix that gives ZeroDet with the test off must give ZeroDet with it on
    for key, lst in by_matrix.items():
        off = [t for c_, t in lst if c_["stability"] is None]
        if off and "ZeroDet" in off[0]:
            for c_, t in lst:
                if c_["stability"] is not None and "ZeroDet" not in t:
                    rep.violation("property", "zero pivot product (ZeroDet with the stability test off) is reported as %s with the test on (tol %r, kind %s)" % (
                        t, b2f(c_["stability"]), c_["kind"]), case=c_, failing_input=True, what="a zero pivot product does not yield ZeroDet")
                    break
    rep.cov["outcome_histogram"] = hist
    rep.cov["rule"] = ("symmetric matrices n=1..6: SPD, ill-conditioned SPD, exactly rank-deficient integer (zero pivot), indefinite, NaN/inf-containing, and fixed corner cases "
                       "([[-1]], diag(1e-200), diag(1e300), 0); each with the test off and with tolerances 1e-30, 1e-5, half and twice the exactly computed error; outcome tag and "
                       "results vs the Coq model; on every Ok: determinant != 0, no NaN when the test is on, |inverse*M-1|_{2,1} (40-digit) <= tol; then samples of accepted graphs "
                       "with the test enabled incl. extreme points. non-trivial = not a plain SPD case without test")
