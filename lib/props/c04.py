# C04 -- J-function obeys its recursion exactly; I_tr and the cached normalisation follow.
from common import *
import graphs as G, tablecorr as TC
from fractions import Fraction
from itertools import permutations
import mpmath


def perm_sum(tab, E):
    full = (1 << E) - 1
    tot = Fraction(0)
    for s in permutations(range(E)):
        g, p = full, Fraction(1)
        for e in s:
            g ^= 1 << e
            p /= tab[g][2]
        tot += p
    return tot


def check_exact(rep, c, o, deep):
    if TC.impl_outcome(o) != "ok":
        return
    g = TC.case_graph(c)
    tab, dod, L = G.exact_table(g)
    J = G.exact_J(tab)
    E = len(c["edges"])
    bad = []
    for gid in range(len(tab)):
        if not rel_close(b2f(o["j_bits"][gid]), float(J[gid]), 1e-12 * max(1, E)):
            bad.append("subset %d: j_function %r, exact recursion %s" % (gid, b2f(o["j_bits"][gid]), float(J[gid])))
    if deep and E <= 6:
        ps = perm_sum(tab, E)
        if not rel_close(b2f(o["j_bits"][-1]), float(ps), 1e-12 * E):
            bad.append("J(full) %r, sum over %d! orderings %s" % (b2f(o["j_bits"][-1]), E, float(ps)))
    # edge probabilities sum to one (from the implementation's own table)
    for gid in range(1, len(tab)):
        s = sum(b2f(o["j_bits"][gid ^ (1 << e)]) / b2f(o["j_bits"][gid]) / b2f(o["dod_bits"][gid ^ (1 << e)]) for e in range(E) if gid >> e & 1)
        if not rel_close(s, 1.0, 1e-11):
            bad.append("subset %d: edge probabilities sum to %r" % (gid, s))
    if dod > 0:
        mpmath.mp.dps = 50
        fac = mpmath.mpf(J[-1].numerator) / J[-1].denominator * mpmath.gamma(mpmath.mpf(dod.numerator) / dod.denominator)
        for e in g["edges"]:
            w = Fraction(e[3])
            fac /= mpmath.gamma(mpmath.mpf(w.numerator) / w.denominator)
        fac *= mpmath.pi ** (mpmath.mpf(c["D"] * L) / 2)
        if o["factor_bits"] is None or not rel_close(b2f(o["factor_bits"]), float(fac), 1e-11):
            bad.append("cached_factor %r, exact I_tr*Gamma(dod)/prod Gamma(w)*pi^(DL/2) = %s" % (b2f(o["factor_bits"] or 0), float(fac)))
    if bad:
        rep.violation("property", "; ".join(bad[:4]), case=c, failing_input=True, what="J / normalisation differs from exact arithmetic")


def run(rep, rng, tier, replay=None):
    cases = []
    if replay and replay.get("chosen", {}).get("case"):
        cases.append(replay["chosen"]["case"])
    n = 150 if tier == "quick" else 1500
    emax = 7 if tier == "quick" else 9
    for i in range(n):
        rr = rng.fork()
        g = G.gen_accepted(rr, emax=emax, want_dod_pos=rr.chance(0.8))
        cases.append(G.to_case(g))
    impl, model = TC.run_tables("C04", cases, batch=20)
    eq = tot = 0
    hist = {}
    for i, (c, o, m) in enumerate(zip(cases, impl, model)):
        ws = {e[3] for e in c["edges"]}
        rep.count(c, len(c["edges"]) >= 3 and (len(ws) > 1 or any(e[2] for e in c["edges"])))
        hist["E=%d" % len(c["edges"])] = hist.get("E=%d" % len(c["edges"]), 0) + 1
        for cat, msg in TC.diff_tables(c, o, m):
            if cat in ("j", "factor") or (cat == "outcome"):
                rep.violation("correspondence", msg, case=c)
        check_exact(rep, c, o, deep=(i % 3 == 0))
        a, b = TC.bit_exact(o, m)
        eq += a
        tot += b
        if TC.impl_outcome(o) == "ok":
            rep.sample(dict(case=c, J_full=b2f(o["j_bits"][-1]), cached_factor=b2f(o["factor_bits"] or 0)))
    rep.cov["rule"] = ("accepted graphs (rejection sampling on a weight grid / random doubles) from the named families, E<=%d, D=1..6, "
                       "mixed masses, non-spanning full graphs included; compared with (i) the Coq model at binary64 (relation 1e-11, bit-exact rate "
                       "reported), (ii) exact rational recursion, the E! sum (every third case, E<=6), mpmath Gamma/pi at 50 digits. "
                       "non-trivial = E>=3 with unequal weights or a massive edge" % emax)
    rep.cov["edge_count_histogram"] = hist
    rep.cov["bit_exact_rate"] = (eq / tot) if tot else None
