# C06 -- edge selection inverts the tropical edge distribution and is total on [0,1).
from common import *
import graphs as G, tablecorr as TC, samplecorr as SCR


def prefix_sums(timpl, g):
    """binary64 running sums exactly as the code forms them, from the implementation's own table"""
    J = [b2f(x) for x in timpl["j_bits"]]
    W = [b2f(x) for x in timpl["dod_bits"]]
    E = timpl["num_edges"]
    cum, out = 0.0, []
    for e in range(E):
        if g >> e & 1:
            h = g ^ (1 << e)
            cum = cum + J[h] / J[g] / W[h]
            out.append((e, h, cum))
    return out


def expected(ps, u):
    for e, h, cum in ps:
        if cum >= u:
            return [e, h]
    return None


def acceptable(timpl, g, u):
    """the edges a correct implementation may return for u: the running sums are judged in EXACT rational arithmetic on the table's
    values, with a relative slack of a few ulps where a sum is not exactly representable (the property does not fix the order in
    which the code rounds); where the sum is a binary64 number whatever the evaluation order (e.g. 1/2), 'reaches' is strict"""
    from fractions import Fraction
    J = [Fraction(b2f(x)) for x in timpl["j_bits"]]
    W = [Fraction(b2f(x)) for x in timpl["dod_bits"]]
    E = timpl["num_edges"]
    es = [e for e in range(E) if g >> e & 1]
    cums, c = [], Fraction(0)
    for e in es:
        h = g ^ (1 << e)
        c += J[h] / J[g] / W[h]
        cums.append(c)
    uq = Fraction(u)
    slack = Fraction(4 * len(es), 2 ** 53)
    def exact_float(q):
        try:
            return Fraction(float(q)) == q
        except OverflowError:
            return False
    lo = hi = None
    for i, cq in enumerate(cums):
        s_ = 0 if exact_float(cq) else slack
        if lo is None and cq * (1 + s_) >= uq:
            lo = i
        if hi is None and cq * (1 - s_) >= uq:
            hi = i
    if lo is None:
        lo = len(es) - 1
    if hi is None:
        hi = len(es) - 1
    return [es[i] for i in range(lo, hi + 1)]


def run(rep, rng, tier, replay=None):
    ngraphs = 40 if tier == "quick" else 300
    cases = []
    for i in range(ngraphs):
        r = rng.fork()
        g = G.gen_accepted(r, emax=5 if tier == "quick" else 7)
        if len(g["edges"]) < 2:
            continue
        cases.append(G.to_case(g))
    if replay and replay.get("chosen", {}).get("case"):
        cases.insert(0, {k: v for k, v in replay["chosen"]["case"].items() if k != "queries"})
    # the triangle of DESIGN.md 5(a): rounded cumulative sum ends below 1
    cases.insert(0, dict(edges=[[0, 1, False, 0x3ff3d246d103fb16], [1, 2, False, 0x3ff00fb3a894fc9e], [2, 0, False, 0x3fe50d61b9049ce9]],
                         externals=[0, 1, 2], D=3))
    timpl = harness("table", dict(cases=cases))["results"]
    top = 1.0 - 2.0**-53
    kept = []
    for c, t in zip(cases, timpl):
        if not t.get("ok"):
            continue
        E = len(c["edges"])
        r = rng.fork()
        qs = []
        ids = [g for g in range(1, 1 << E) if bin(g).count("1") >= 2]
        r.shuffle(ids)
        for g in ids[:12] + [(1 << E) - 1]:
            ps = prefix_sums(t, g)
            us = {0.0, 5e-324, top, math.nextafter(top, 0.0), r.unit(), r.unit()}
            for e, h, cum in ps:
                for u in ulp_neighbors(cum):
                    if 0.0 <= u < 1.0:
                        us.add(u)
            for u in sorted(us):
                qs.append([g, f2b(u)])
        c = dict(c)
        c["queries"] = qs
        kept.append((c, t))
    cases = [c for c, _ in kept]
    impl = harness("edge", dict(cases=cases), timeout=600)["results"]
    # model
    allq, spans = [], []
    for c, t in kept:
        q = TC.table_oracle_entries(c, t)
        spans.append((len(allq), len(q)))
        allq += q
    ans = TC.oracle_answers(allq)
    exprs = []
    for (c, t), (s, n) in zip(kept, spans):
        ents = [(q[0], f2b(q[1]), f2b(q[2]), a) for q, a in zip(allq[s:s + n], ans[s:s + n]) if a is not None]
        exprs.append("(render_sample_edge %s %s %s %d %s)" % (TC.coq_oracle(ents), TC.coq_edges(c), TC.coq_ext(c), c["D"],
                     coq_list(["(%d%%N, %s)" % (g, coq_float(b2f(u))) for g, u in c["queries"]])))
    model = run_model("C06", [], TC.PRELUDE, exprs, batch=4)
    npanic = 0
    for (c, t), o, m in zip(kept, impl, model):
        if "answers" not in o:
            rep.violation("machinery", "edge harness: %s" % str(o)[:200], case=c)
            continue
        for k, (q, a) in enumerate(zip(c["queries"], o["answers"])):
            g, ub = q
            u = b2f(ub)
            ps = prefix_sums(t, g)
            probs = sorted({round(ps[i][2] - (ps[i - 1][2] if i else 0.0), 9) for i in range(len(ps))})
            rep.count([c["edges"], c["externals"], c["D"], g, ub], len(ps) >= 3 and len(probs) > 1)
            mm = m[2 * k: 2 * k + 2]
            got = a if isinstance(a, list) else None
            mod = mm if mm[0] >= 0 else None
            case = dict(c, queries=[q])
            if got != mod:
                rep.violation("correspondence", "sample_edge(g=%d, u=%r): implementation %s, model %s" % (g, u, got if got else "panic", mod if mod else "panic"), case=case)
            exp = expected(ps, u)
            if got is None:
                npanic += 1
                rep.violation("property", "sample_edge panics for u=%r in [0,1) on subgraph %d (rounded cumulative sum ends at %r)" % (u, g, ps[-1][2]),
                              case=case, failing_input=True, what="no edge selected for u in [0,1)")
            else:
                acc = acceptable(t, g, u)
                if got[0] not in acc or got[1] != g ^ (1 << got[0]):
                    rep.violation("property", "sample_edge(g=%d, u=%r) = %s but the first edge whose running sum (exact, on the table's values) reaches u is %s" % (
                        g, u, got, acc if len(acc) > 1 else acc[0]), case=case, failing_input=True, what="not the first edge at which the running sum reaches u")
        rep.sample(dict(graph=dict(edges=c["edges"], D=c["D"]), queries=c["queries"][:3], answers=o["answers"][:3]))
    # through the public API: single remaining edge consumes no number, removal order = order of the kappas
    scases = [SCR.gen_sample_case(rng.fork(), emax=5) for _ in range(30 if tier == "quick" else 200)]
    # small graphs (E <= 4) reach the special one- and two-edge subgraphs (tadpoles, a single edge that is mass-momentum spanning) often
    scases += [SCR.gen_sample_case(rng.fork(), emax=4) for _ in range(100 if tier == "quick" else 400)]
    for c in scases[:10]:
        E = len(c["edges"])
        c["point"][0] = f2b(top)          # first edge draw at the top of [0,1)
    # boundary-hugging draws: along a random removal path every edge draw sits a relative 1e-7 below or above one of the running
    # sums of that level, so that any other partition of [0,1) (other probabilities, another order) picks another edge
    stab = harness("table", dict(cases=scases))["results"]
    for c, t in list(zip(scases, stab))[10:]:
        if not t.get("ok"):
            continue
        r = rng.fork()
        E = len(c["edges"])
        g = (1 << E) - 1
        for k in range(E - 1):
            ps = prefix_sums(t, g)
            i = r.below(len(ps))
            u = ps[i][2] * (1 - 1e-7 if r.chance(0.5) else 1 + 1e-7)
            u = min(max(u, 0.0), top)
            c["point"][2 * k] = f2b(u)
            exp = expected(ps, u)
            g ^= 1 << (exp[0] if exp is not None else ps[-1][0])
    res = SCR.run_samples("C06s", scases)
    napi = 0
    for c, x in zip(scases, res):
        o, m = x["impl"], x["model"]
        fi = SCR.impl_fields(o["f64"]) if "f64" in o else dict(tag="panic", why=str(o)[:100])
        rep.count(["api", c["edges"], c["point"][:4]], len(c["edges"]) >= 3)
        if fi["tag"] == "panic":
            rep.violation("property", "generate_sample_from_x_space_point panicked: %s" % fi["why"][:200], case=c, failing_input=True)
        elif fi["tag"] == "ok" and m["tag"] == "ok":
            d = SCR.cmp_field("x_pre", fi["x_pre"], m["x_pre"], 1e-12)
            if d:
                rep.violation("correspondence", "pre-rescaling Feynman parameters (edge order): %s" % d[:2], case=c)
        if fi["tag"] == "ok" and x["table"].get("ok") and fi.get("x_pre"):
            # the removal order the sampler actually took (the k-th removed edge carries the k-th kappa, kappas decrease) against the
            # first-crossing rule on the implementation's own table, level by level, with the edge-draw coordinates of the point
            xp = SCR.floats(fi["x_pre"])
            E = len(xp)
            order = sorted(range(E), key=lambda e: -xp[e])
            if len(set(xp)) == E and all(math.isfinite(v) and v > 0 for v in xp):
                g = (1 << E) - 1
                for k in range(E - 1):
                    u = b2f(c["point"][2 * k])
                    acc = acceptable(x["table"], g, u)
                    napi += 1
                    if order[k] not in acc:
                        rep.violation("property", "sampling removed edge %d at step %d (subgraph %d, edge draw u=%r) but the first edge whose running sum reaches u is %s" % (
                            order[k], k, g, u, acc if len(acc) > 1 else acc[0]), case=c, failing_input=True, what="the sampler's edge choice is not the inverse of the tropical edge distribution")
                        break
                    g ^= 1 << order[k]
        elif fi["tag"] != m["tag"]:
            rep.violation("correspondence", "outcome implementation %s model %s" % (fi, m), case=c)
    rep.cov["rule"] = ("accepted graphs E=2..%d; for up to 13 subgraph ids per graph with >=2 edges: u in {0, 2^-1074, 1-2^-53, its predecessor, two uniform draws, "
                       "every binary64 running sum and its two neighbours}; exact equality of (edge, remainder)/panic between hook and model (correspondence), and against the "
                       "first-crossing rule in exact rationals on the implementation's own table (a few ulps of slack where a sum is not a binary64 number, strict where it is); plus samples through the public API with the first draw at 1-2^-53 or with every edge draw a relative 1e-7 beside a running sum of its level, whose whole removal order (read off the decreasing pre-rescaling parameters) is compared with the first-crossing rule level by level. "
                       "non-trivial = subgraph with >=3 edges and unequal probabilities" % (5 if tier == "quick" else 7))
    rep.cov["panics_seen"] = npanic
    rep.cov["edge_choices_checked_through_the_public_api"] = napi
