#!/bin/bash
# usage: lib/run_harmless.sh <patch.diff>  -- apply a behaviour-preserving rewrite to /repo, run ALL 20 checks (quick, --no-proofs),
# print every verdict that is not OK, undo.  A line without "no-failing-input-found" would be a false alarm of the checks.
set -u
patch=$(realpath "$1")
cd /repo || exit 2
if ! git diff --quiet; then echo "/repo has uncommitted changes"; exit 2; fi
git apply "$patch" || { echo "patch does not apply"; exit 2; }
cd /verif
for i in 01 02 03 04 05 06 07 08 09 10 11 12 13 14 15 16 17 18 19 20; do
  out=$(./check C$i --no-proofs 2>&1 | grep -E "^(VIOLATION|  \[)" | cut -c1-260 | head -3)
  [ -n "$out" ] && { echo "-- C$i"; echo "$out"; }
done
git -C /repo checkout -- .
git -C /repo status --short
echo "done $(basename $(dirname $patch))"
