#!/bin/bash
# usage: lib/verify_seeded.sh Cxx   -- confirm a seeded change in ITS OWN scratch worktree /tmp/mut/Cxx (never /repo):
# the 35 existing tests pass with the change, the demonstration fails with it and passes without it.
# reads /tmp/mut/out/Cxx/{patch.diff,demo_cxx.rs}, writes /tmp/mut/out/Cxx/verify.txt
id=$1; wt=/tmp/mut/$id; out=/tmp/mut/out/$id/verify.txt; idl=$(echo $id | tr A-Z a-z)
cd $wt || exit 1
export CARGO_TARGET_DIR=$wt/target CARGO_NET_OFFLINE=true
git checkout -- src 2>/dev/null; git apply /tmp/mut/out/$id/patch.diff || { echo "patch does not apply" > $out; exit 1; }
cp /tmp/mut/out/$id/demo_$idl.rs tests/demo_$idl.rs
feat=""; grep -q "momtrop::log\|DummyLogger" tests/demo_$idl.rs && feat="--features log"
{
echo "== with change: existing suite"; cargo test --offline --lib --test triangle 2>&1 | grep -E "^test result|FAILED"
echo "== with change: demo"; cargo test --offline $feat --test demo_$idl 2>&1 | grep -E "^test result|FAILED|panicked" | head -5
git checkout -- src
echo "== without change: demo"; cargo test --offline $feat --test demo_$idl 2>&1 | grep -E "^test result|FAILED" | head -3
} > $out 2>&1
git apply /tmp/mut/out/$id/patch.diff
