#!/usr/bin/env python3
# Regenerates MANIFEST.json from the table below (keeps it valid at all times).
import json, os
V = os.path.dirname(os.path.dirname(os.path.abspath(__file__)))
props = [json.loads(l) for l in open(os.path.join(V, "properties.jsonl"))]
CLAIMS = json.load(open(os.path.join(V, "lib", "claims.json")))
checks, na = [], []
for p in props:
    pid = p["id"]
    c = CLAIMS.get(pid)
    if not c or c.get("not_applicable"):
        na.append(dict(property_id=pid, reason=(c or {}).get("not_applicable", "check not built yet in this round (claimed in DESIGN.md; will be added)")))
        continue
    checks.append(dict(
        property_id=pid,
        quick_cmd="./check %s --tier quick" % pid,
        thorough_cmd="./check %s --tier thorough" % pid,
        evidence_file="/verif/evidence/%s.json" % pid,
        replay_cmd_template="./check %s --replay {path}" % pid,
        engine="coq-model+correspondence",
        level_claimed=dict(category="proof", text=c["text"], design_ref=c.get("design_ref", "DESIGN.md section 4, " + pid)),
        level_note=c["note"],
        technique=c.get("technique", "machine-checked proof in Coq 8.16 about a hand-written executable Gallina model + correspondence check (model run by vm_compute vs implementation)"),
    ))
m = dict(
    version=1,
    setup_cmd="./setup.sh",
    hooks=dict(guard="momtrop_verif", enable="RUSTFLAGS='--cfg momtrop_verif' (set by lib/common.py for the harness build)",
               baseline_off_cmd="cd /repo && cargo test --workspace --no-fail-fast --offline",
               source_commits=json.load(open(os.path.join(V, "lib", "hook_commits.json"))), add_only=True),
    engines=[dict(name="coq-model+correspondence", path="/verif/coq, /verif/harness, /verif/lib",
                  serves_properties=[c["property_id"] for c in checks],
                  kind_free_text="Coq 8.16 theorems about a scalar-generic Gallina model of momtrop; the model is run inside Coq (vm_compute, primitive binary64 floats) and compared with the implementation built from /repo's working tree")],
    checks=checks,
    not_applicable=na,
    notes="See DESIGN.md. ./check Cxx --tier quick|thorough; VERIF_SEED honoured.",
)
json.dump(m, open(os.path.join(V, "MANIFEST.json"), "w"), indent=1)
print("MANIFEST.json: %d checks, %d not_applicable" % (len(checks), len(na)))
