//! C15/C16: SquareMatrix::decompose_for_tropical on given matrices at T = f64 and T = Inst.
use crate::scalars::*;
use crate::*;
use momtrop::matrix::SquareMatrix;
use momtrop::TropicalSamplingSettings;

fn build<T: crate::cmd_sample::Obs>(n: usize, data: &[f64]) -> SquareMatrix<T> {
    let b = T::mk(1.0, 0.0, 0);
    let mut m = SquareMatrix::new_zeros_from_num(&b, n);
    for i in 0..n {
        for j in 0..n {
            m[(i, j)] = T::mk(data[i * n + j], 0.0, 0);
        }
    }
    m
}

fn flat<T: crate::cmd_sample::Obs>(m: &SquareMatrix<T>) -> Vec<Value> {
    let n = m.get_dim();
    let mut out = vec![];
    for i in 0..n {
        for j in 0..n {
            out.push(m[(i, j)].obs());
        }
    }
    out
}

fn run_one<T: crate::cmd_sample::Obs>(c: &Value) -> Value {
    let n = c["n"].as_u64().unwrap() as usize;
    let data = fvec(&c["m"]);
    let m: SquareMatrix<T> = build(n, &data);
    let settings = TropicalSamplingSettings {
        matrix_stability_test: c["stability"].as_u64().map(f),
        print_debug_info: false,
        return_metadata: false,
    };
    reset_trace();
    match m.decompose_for_tropical(&settings) {
        Ok(d) => json!({
            "ok": true,
            "determinant": d.determinant.obs(),
            "inverse": flat(&d.inverse),
            "q_transposed": flat(&d.q_transposed),
            "q_transposed_inverse": flat(&d.q_transposed_inverse),
            "narrowings": take_trace().to_f64.len(),
        }),
        Err(e) => json!({ "ok": false, "err": format!("{:?}", e) }),
    }
}

pub fn run(input: &Value) -> Value {
    let outs: Vec<Value> = input["cases"]
        .as_array()
        .unwrap()
        .iter()
        .map(|c| {
            let c1 = c.clone();
            let c2 = c.clone();
            json!({ "f64": guarded(move || run_one::<f64>(&c1)), "inst": guarded(move || run_one::<Inst>(&c2)) })
        })
        .collect();
    json!({ "results": outs })
}
