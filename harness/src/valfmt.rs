//! A small in-memory self-describing serde format (value tree) with two struct encodings, like MessagePack:
//! named (a struct is a map field name -> value) and compact (a struct is the sequence of its field values).
//! Both keep f64 bit-exactly.  Taken from the demonstration written for the seeded change C18-6
//! (seeded/C18-6/demo_c18.rs); used by cmd_history for a third serde round trip.
#![allow(dead_code)]
use std::fmt;

use serde::de::{self, DeserializeSeed, IntoDeserializer, MapAccess, SeqAccess, Visitor};
use serde::ser::{self, Impossible};
use serde::{forward_to_deserialize_any, Serialize};

// ---------------------------------------------------------------------------------------
// the format
// ---------------------------------------------------------------------------------------

#[derive(Clone, Debug)]
pub enum Value {
    Unit,
    Bool(bool),
    I64(i64),
    U64(u64),
    F64(f64),
    Str(String),
    Seq(Vec<Value>),
    Map(Vec<(String, Value)>),
}

#[derive(Debug)]
pub struct Error(pub String);

impl fmt::Display for Error {
    fn fmt(&self, f: &mut fmt::Formatter<'_>) -> fmt::Result {
        f.write_str(&self.0)
    }
}
impl std::error::Error for Error {}
impl ser::Error for Error {
    fn custom<T: fmt::Display>(msg: T) -> Self {
        Error(msg.to_string())
    }
}
impl de::Error for Error {
    fn custom<T: fmt::Display>(msg: T) -> Self {
        Error(msg.to_string())
    }
}

#[derive(Clone, Copy)]
pub struct Enc {
    pub named: bool,
}

pub struct SeqEnc {
    enc: Enc,
    items: Vec<Value>,
}

pub struct StructEnc {
    enc: Enc,
    fields: Vec<(String, Value)>,
}

fn unsupported<T>(what: &str) -> Result<T, Error> {
    Err(Error(format!("{what} is not supported by the demo format")))
}

impl ser::Serializer for Enc {
    type Ok = Value;
    type Error = Error;
    type SerializeSeq = SeqEnc;
    type SerializeTuple = SeqEnc;
    type SerializeTupleStruct = SeqEnc;
    type SerializeTupleVariant = Impossible<Value, Error>;
    type SerializeMap = Impossible<Value, Error>;
    type SerializeStruct = StructEnc;
    type SerializeStructVariant = Impossible<Value, Error>;

    fn serialize_bool(self, v: bool) -> Result<Value, Error> {
        Ok(Value::Bool(v))
    }
    fn serialize_i8(self, v: i8) -> Result<Value, Error> {
        Ok(Value::I64(v as i64))
    }
    fn serialize_i16(self, v: i16) -> Result<Value, Error> {
        Ok(Value::I64(v as i64))
    }
    fn serialize_i32(self, v: i32) -> Result<Value, Error> {
        Ok(Value::I64(v as i64))
    }
    fn serialize_i64(self, v: i64) -> Result<Value, Error> {
        Ok(Value::I64(v))
    }
    fn serialize_u8(self, v: u8) -> Result<Value, Error> {
        Ok(Value::U64(v as u64))
    }
    fn serialize_u16(self, v: u16) -> Result<Value, Error> {
        Ok(Value::U64(v as u64))
    }
    fn serialize_u32(self, v: u32) -> Result<Value, Error> {
        Ok(Value::U64(v as u64))
    }
    fn serialize_u64(self, v: u64) -> Result<Value, Error> {
        Ok(Value::U64(v))
    }
    fn serialize_f32(self, v: f32) -> Result<Value, Error> {
        Ok(Value::F64(v as f64))
    }
    fn serialize_f64(self, v: f64) -> Result<Value, Error> {
        Ok(Value::F64(v))
    }
    fn serialize_char(self, v: char) -> Result<Value, Error> {
        Ok(Value::Str(v.to_string()))
    }
    fn serialize_str(self, v: &str) -> Result<Value, Error> {
        Ok(Value::Str(v.to_owned()))
    }
    fn serialize_bytes(self, v: &[u8]) -> Result<Value, Error> {
        Ok(Value::Seq(v.iter().map(|&b| Value::U64(b as u64)).collect()))
    }
    fn serialize_none(self) -> Result<Value, Error> {
        Ok(Value::Unit)
    }
    fn serialize_some<T: ?Sized + Serialize>(self, value: &T) -> Result<Value, Error> {
        value.serialize(self)
    }
    fn serialize_unit(self) -> Result<Value, Error> {
        Ok(Value::Unit)
    }
    fn serialize_unit_struct(self, _name: &'static str) -> Result<Value, Error> {
        Ok(Value::Unit)
    }
    fn serialize_unit_variant(
        self,
        _name: &'static str,
        _index: u32,
        variant: &'static str,
    ) -> Result<Value, Error> {
        Ok(Value::Str(variant.to_owned()))
    }
    fn serialize_newtype_struct<T: ?Sized + Serialize>(
        self,
        _name: &'static str,
        value: &T,
    ) -> Result<Value, Error> {
        value.serialize(self)
    }
    fn serialize_newtype_variant<T: ?Sized + Serialize>(
        self,
        _name: &'static str,
        _index: u32,
        _variant: &'static str,
        _value: &T,
    ) -> Result<Value, Error> {
        unsupported("a newtype variant")
    }
    fn serialize_seq(self, len: Option<usize>) -> Result<SeqEnc, Error> {
        Ok(SeqEnc {
            enc: self,
            items: Vec::with_capacity(len.unwrap_or(0)),
        })
    }
    fn serialize_tuple(self, len: usize) -> Result<SeqEnc, Error> {
        self.serialize_seq(Some(len))
    }
    fn serialize_tuple_struct(self, _name: &'static str, len: usize) -> Result<SeqEnc, Error> {
        self.serialize_seq(Some(len))
    }
    fn serialize_tuple_variant(
        self,
        _name: &'static str,
        _index: u32,
        _variant: &'static str,
        _len: usize,
    ) -> Result<Self::SerializeTupleVariant, Error> {
        unsupported("a tuple variant")
    }
    fn serialize_map(self, _len: Option<usize>) -> Result<Self::SerializeMap, Error> {
        unsupported("a map")
    }
    fn serialize_struct(self, _name: &'static str, len: usize) -> Result<StructEnc, Error> {
        Ok(StructEnc {
            enc: self,
            fields: Vec::with_capacity(len),
        })
    }
    fn serialize_struct_variant(
        self,
        _name: &'static str,
        _index: u32,
        _variant: &'static str,
        _len: usize,
    ) -> Result<Self::SerializeStructVariant, Error> {
        unsupported("a struct variant")
    }
}

impl ser::SerializeSeq for SeqEnc {
    type Ok = Value;
    type Error = Error;
    fn serialize_element<T: ?Sized + Serialize>(&mut self, value: &T) -> Result<(), Error> {
        self.items.push(value.serialize(self.enc)?);
        Ok(())
    }
    fn end(self) -> Result<Value, Error> {
        Ok(Value::Seq(self.items))
    }
}
impl ser::SerializeTuple for SeqEnc {
    type Ok = Value;
    type Error = Error;
    fn serialize_element<T: ?Sized + Serialize>(&mut self, value: &T) -> Result<(), Error> {
        ser::SerializeSeq::serialize_element(self, value)
    }
    fn end(self) -> Result<Value, Error> {
        ser::SerializeSeq::end(self)
    }
}
impl ser::SerializeTupleStruct for SeqEnc {
    type Ok = Value;
    type Error = Error;
    fn serialize_field<T: ?Sized + Serialize>(&mut self, value: &T) -> Result<(), Error> {
        ser::SerializeSeq::serialize_element(self, value)
    }
    fn end(self) -> Result<Value, Error> {
        ser::SerializeSeq::end(self)
    }
}
impl ser::SerializeStruct for StructEnc {
    type Ok = Value;
    type Error = Error;
    fn serialize_field<T: ?Sized + Serialize>(
        &mut self,
        key: &'static str,
        value: &T,
    ) -> Result<(), Error> {
        self.fields.push((key.to_owned(), value.serialize(self.enc)?));
        Ok(())
    }
    fn end(self) -> Result<Value, Error> {
        if self.enc.named {
            Ok(Value::Map(self.fields))
        } else {
            Ok(Value::Seq(self.fields.into_iter().map(|(_, v)| v).collect()))
        }
    }
}

impl<'de> IntoDeserializer<'de, Error> for Value {
    type Deserializer = Value;
    fn into_deserializer(self) -> Value {
        self
    }
}

impl<'de> de::Deserializer<'de> for Value {
    type Error = Error;

    fn deserialize_any<V: Visitor<'de>>(self, visitor: V) -> Result<V::Value, Error> {
        match self {
            Value::Unit => visitor.visit_unit(),
            Value::Bool(b) => visitor.visit_bool(b),
            Value::I64(i) => visitor.visit_i64(i),
            Value::U64(u) => visitor.visit_u64(u),
            Value::F64(x) => visitor.visit_f64(x),
            Value::Str(s) => visitor.visit_string(s),
            Value::Seq(items) => visitor.visit_seq(SeqDec {
                items: items.into_iter(),
            }),
            Value::Map(fields) => visitor.visit_map(MapDec {
                fields: fields.into_iter(),
                pending: None,
            }),
        }
    }

    forward_to_deserialize_any! {
        bool i8 i16 i32 i64 i128 u8 u16 u32 u64 u128 f32 f64 char str string
        bytes byte_buf option unit unit_struct newtype_struct seq tuple
        tuple_struct map struct enum identifier ignored_any
    }
}

struct SeqDec {
    items: std::vec::IntoIter<Value>,
}

impl<'de> SeqAccess<'de> for SeqDec {
    type Error = Error;
    fn next_element_seed<T: DeserializeSeed<'de>>(
        &mut self,
        seed: T,
    ) -> Result<Option<T::Value>, Error> {
        match self.items.next() {
            Some(v) => seed.deserialize(v).map(Some),
            None => Ok(None),
        }
    }
    fn size_hint(&self) -> Option<usize> {
        Some(self.items.len())
    }
}

struct MapDec {
    fields: std::vec::IntoIter<(String, Value)>,
    pending: Option<Value>,
}

impl<'de> MapAccess<'de> for MapDec {
    type Error = Error;
    fn next_key_seed<K: DeserializeSeed<'de>>(&mut self, seed: K) -> Result<Option<K::Value>, Error> {
        match self.fields.next() {
            Some((k, v)) => {
                self.pending = Some(v);
                seed.deserialize(Value::Str(k)).map(Some)
            }
            None => Ok(None),
        }
    }
    fn next_value_seed<V: DeserializeSeed<'de>>(&mut self, seed: V) -> Result<V::Value, Error> {
        seed.deserialize(self.pending.take().expect("value without key"))
    }
}


pub fn to_value<T: Serialize>(x: &T, named: bool) -> Result<Value, Error> {
    x.serialize(Enc { named })
}

pub fn from_value<T: serde::de::DeserializeOwned>(v: Value) -> Result<T, Error> {
    T::deserialize(v)
}
