//! `Inst`: an instrumented scalar for the generic API of momtrop.  It wraps f64 (all
//! arithmetic is plain f64, so values are bit-identical to T = f64) and additionally
//!   * records every transcendental call (op, argument bits, result bits) and every
//!     to_f64 / from_f64 call in a thread-local log                      (Rec)
//!   * carries the set of hypercube coordinates the value depends on;
//!     comparisons add their operands' sets to a thread-local control set (Taint)
//!   * carries a first-order perturbation (forward-mode dual number)      (Dual)
use momtrop::float::MomTropFloat;
use std::cell::RefCell;
use std::ops::{Add, AddAssign, Div, Mul, MulAssign, Neg, Sub, SubAssign};

#[derive(Clone, Debug)]
pub struct Inst {
    pub v: f64,
    pub d: f64,
    pub t: u128,
}

#[derive(Default)]
pub struct Trace {
    pub calls: Vec<(u8, u64, u64, u64)>, // op, a, b, result   (ops 1..5 = ln exp cos sin powf)
    pub to_f64: Vec<(u64, u128)>,        // value narrowed, its taint
    pub from_f64: Vec<u64>,
    pub control: u128, // union of the taint of every value that entered a comparison
    pub compares: u64,
}

thread_local! {
    pub static TRACE: RefCell<Trace> = RefCell::new(Trace::default());
}

pub fn reset_trace() {
    TRACE.with(|t| *t.borrow_mut() = Trace::default());
}
pub fn take_trace() -> Trace {
    TRACE.with(|t| std::mem::take(&mut *t.borrow_mut()))
}

impl Inst {
    pub fn new(v: f64, d: f64, t: u128) -> Self {
        Inst { v, d, t }
    }
    fn c(v: f64) -> Self {
        Inst { v, d: 0.0, t: 0 }
    }
    fn rec(op: u8, a: f64, b: f64, r: f64) {
        TRACE.with(|t| t.borrow_mut().calls.push((op, a.to_bits(), b.to_bits(), r.to_bits())));
    }
}

impl PartialEq for Inst {
    fn eq(&self, o: &Self) -> bool {
        TRACE.with(|t| {
            let mut t = t.borrow_mut();
            t.control |= self.t | o.t;
            t.compares += 1;
        });
        self.v == o.v
    }
}
impl PartialOrd for Inst {
    fn partial_cmp(&self, o: &Self) -> Option<std::cmp::Ordering> {
        TRACE.with(|t| {
            let mut t = t.borrow_mut();
            t.control |= self.t | o.t;
            t.compares += 1;
        });
        self.v.partial_cmp(&o.v)
    }
}

fn add_(a: &Inst, b: &Inst) -> Inst {
    Inst { v: a.v + b.v, d: a.d + b.d, t: a.t | b.t }
}
fn sub_(a: &Inst, b: &Inst) -> Inst {
    Inst { v: a.v - b.v, d: a.d - b.d, t: a.t | b.t }
}
fn mul_(a: &Inst, b: &Inst) -> Inst {
    Inst { v: a.v * b.v, d: a.d * b.v + a.v * b.d, t: a.t | b.t }
}
fn div_(a: &Inst, b: &Inst) -> Inst {
    Inst { v: a.v / b.v, d: (a.d - (a.v / b.v) * b.d) / b.v, t: a.t | b.t }
}

macro_rules! binop {
    ($Tr:ident, $m:ident, $f:ident) => {
        impl $Tr<Inst> for Inst {
            type Output = Inst;
            fn $m(self, r: Inst) -> Inst {
                $f(&self, &r)
            }
        }
        impl<'a> $Tr<&'a Inst> for Inst {
            type Output = Inst;
            fn $m(self, r: &'a Inst) -> Inst {
                $f(&self, r)
            }
        }
        impl<'a> $Tr<Inst> for &'a Inst {
            type Output = Inst;
            fn $m(self, r: Inst) -> Inst {
                $f(self, &r)
            }
        }
        impl<'a, 'b> $Tr<&'b Inst> for &'a Inst {
            type Output = Inst;
            fn $m(self, r: &'b Inst) -> Inst {
                $f(self, r)
            }
        }
    };
}
binop!(Add, add, add_);
binop!(Sub, sub, sub_);
binop!(Mul, mul, mul_);
binop!(Div, div, div_);

impl<'a> AddAssign<&'a Inst> for Inst {
    fn add_assign(&mut self, r: &'a Inst) {
        *self = add_(self, r);
    }
}
impl<'a> SubAssign<&'a Inst> for Inst {
    fn sub_assign(&mut self, r: &'a Inst) {
        *self = sub_(self, r);
    }
}
impl<'a> MulAssign<&'a Inst> for Inst {
    fn mul_assign(&mut self, r: &'a Inst) {
        *self = mul_(self, r);
    }
}
impl Neg for Inst {
    type Output = Inst;
    fn neg(self) -> Inst {
        Inst { v: -self.v, d: -self.d, t: self.t }
    }
}
impl<'a> Neg for &'a Inst {
    type Output = Inst;
    fn neg(self) -> Inst {
        Inst { v: -self.v, d: -self.d, t: self.t }
    }
}

impl MomTropFloat for Inst {
    fn one(&self) -> Self {
        Inst::c(1.0)
    }
    fn zero(&self) -> Self {
        Inst::c(0.0)
    }
    #[allow(non_snake_case)]
    fn PI(&self) -> Self {
        Inst::c(std::f64::consts::PI)
    }
    fn ln(&self) -> Self {
        let r = self.v.ln();
        Inst::rec(1, self.v, 0.0, r);
        Inst { v: r, d: self.d / self.v, t: self.t }
    }
    fn exp(&self) -> Self {
        let r = self.v.exp();
        Inst::rec(2, self.v, 0.0, r);
        Inst { v: r, d: r * self.d, t: self.t }
    }
    fn cos(&self) -> Self {
        let r = self.v.cos();
        Inst::rec(3, self.v, 0.0, r);
        Inst { v: r, d: -(self.v.sin()) * self.d, t: self.t }
    }
    fn sin(&self) -> Self {
        let r = self.v.sin();
        Inst::rec(4, self.v, 0.0, r);
        Inst { v: r, d: self.v.cos() * self.d, t: self.t }
    }
    fn powf(&self, p: &Self) -> Self {
        let r = self.v.powf(p.v);
        Inst::rec(5, self.v, p.v, r);
        // d(a^b) = a^b (b' ln a + b a'/a); constant exponents/bases contribute nothing
        let mut d = 0.0;
        if self.d != 0.0 {
            d += r * p.v * self.d / self.v;
        }
        if p.d != 0.0 {
            d += r * p.d * self.v.ln();
        }
        Inst { v: r, d, t: self.t | p.t }
    }
    fn sqrt(&self) -> Self {
        let r = self.v.sqrt();
        Inst { v: r, d: self.d / (2.0 * r), t: self.t }
    }
    fn from_isize(&self, value: isize) -> Self {
        Inst::c(value as f64)
    }
    fn from_f64(&self, value: f64) -> Self {
        TRACE.with(|t| t.borrow_mut().from_f64.push(value.to_bits()));
        Inst::c(value)
    }
    fn inv(&self) -> Self {
        let r = 1.0 / self.v;
        Inst { v: r, d: -self.d * r * r, t: self.t }
    }
    fn to_f64(&self) -> f64 {
        TRACE.with(|t| t.borrow_mut().to_f64.push((self.v.to_bits(), self.t)));
        self.v
    }
    fn abs(&self) -> Self {
        Inst { v: self.v.abs(), d: if self.v < 0.0 { -self.d } else { self.d }, t: self.t }
    }
}
