//! Runs SampleGenerator::generate_sample_from_x_space_point on given graphs/points,
//! at T = f64 and at T = Inst, with the `log` feature's Logger as observation channel.
use crate::cmd_table::graph_of;
use crate::scalars::*;
use crate::*;
use momtrop::float::MomTropFloat;
use momtrop::log::Logger;
use momtrop::matrix::SquareMatrix;
use momtrop::vector::Vector;
use momtrop::{SampleGenerator, TropicalSampleResult, TropicalSamplingSettings};
use std::cell::RefCell;

pub struct VecLogger {
    pub entries: RefCell<Vec<(String, Value)>>,
}
impl Logger for VecLogger {
    fn write<T: serde::Serialize>(&self, msg: &str, data: &T) {
        // CBOR keeps non-finite floats; convert every float to its bit pattern
        let cv = ciborium::value::Value::serialized(data).unwrap();
        self.entries.borrow_mut().push((msg.to_string(), cbor_bits(&cv)));
    }
}
fn cbor_bits(v: &ciborium::value::Value) -> Value {
    use ciborium::value::Value as CV;
    match v {
        CV::Float(x) => json!(x.to_bits()),
        CV::Integer(i) => json!((i128::from(*i) as f64).to_bits()),
        CV::Array(a) => Value::Array(a.iter().map(cbor_bits).collect()),
        _ => Value::Null,
    }
}

pub trait Obs: MomTropFloat {
    fn obs(&self) -> Value;
    fn mk(v: f64, d: f64, t: u128) -> Self;
}
impl Obs for f64 {
    fn obs(&self) -> Value {
        json!([self.to_bits()])
    }
    fn mk(v: f64, _d: f64, _t: u128) -> Self {
        v
    }
}
impl Obs for Inst {
    fn obs(&self) -> Value {
        json!([self.v.to_bits(), self.d.to_bits(), format!("{:x}", self.t)])
    }
    fn mk(v: f64, d: f64, t: u128) -> Self {
        Inst::new(v, d, t)
    }
}

fn ovec<T: Obs, const D: usize>(v: &Vector<T, D>) -> Value {
    Value::Array(v.get_elements().iter().map(|x| x.obs()).collect())
}
fn ovecs<T: Obs, const D: usize>(vs: &[Vector<T, D>]) -> Value {
    Value::Array(vs.iter().map(ovec).collect())
}
fn omat<T: Obs>(m: &SquareMatrix<T>) -> Value {
    let n = m.get_dim();
    let mut out = vec![];
    for i in 0..n {
        for j in 0..n {
            out.push(m[(i, j)].obs());
        }
    }
    json!({ "dim": n, "data": out })
}

pub fn settings_of(c: &Value) -> TropicalSamplingSettings {
    TropicalSamplingSettings {
        matrix_stability_test: c["stability"].as_u64().map(f),
        print_debug_info: c["debug"].as_bool().unwrap_or(false),
        return_metadata: c["metadata"].as_bool().unwrap_or(false),
    }
}

pub fn result_json<T: Obs, const D: usize, E: std::fmt::Debug>(r: &Result<TropicalSampleResult<T, D>, E>) -> Value {
    match r {
        Ok(r) => {
            let md = match &r.metadata {
                None => Value::Null,
                Some(m) => json!({
                    "q_vectors": ovecs(&m.q_vectors),
                    "lambda": m.lambda.obs(),
                    "l_matrix": omat(&m.l_matrix),
                    "determinant": m.decompoisiton_result.determinant.obs(),
                    "inverse": omat(&m.decompoisiton_result.inverse),
                    "q_transposed": omat(&m.decompoisiton_result.q_transposed),
                    "q_transposed_inverse": omat(&m.decompoisiton_result.q_transposed_inverse),
                    "u_vectors": ovecs(&m.u_vectors),
                    "shift": ovecs(&m.shift),
                }),
            };
            json!({
                "ok": true,
                "loop_momenta": ovecs(&r.loop_momenta),
                "u_trop": r.u_trop.obs(), "v_trop": r.v_trop.obs(),
                "u": r.u.obs(), "v": r.v.obs(), "jacobian": r.jacobian.obs(),
                "metadata": md,
            })
        }
        Err(e) => json!({ "ok": false, "err": format!("{:?}", e) }),
    }
}


pub fn point_of<T: Obs>(c: &Value) -> Vec<T> {
    let pts = fvec(&c["point"]);
    let ds: Vec<f64> = match c.get("point_d") {
        Some(Value::Array(a)) => a.iter().map(fv).collect(),
        _ => vec![0.0; pts.len()],
    };
    pts.iter().enumerate().map(|(i, &x)| T::mk(x, ds[i], if i < 128 { 1u128 << i } else { 0 })).collect()
}

pub fn edge_data_of<T: Obs, const D: usize>(c: &Value) -> Vec<(Option<T>, Vector<T, D>)> {
    c["edge_data"]
        .as_array()
        .unwrap()
        .iter()
        .map(|ed| {
            let mass = ed["mass"].as_u64().map(|m| T::mk(f(m), ed["mass_d"].as_u64().map(f).unwrap_or(0.0), 0));
            let sh = fvec(&ed["shift"]);
            let shd: Vec<f64> = match ed.get("shift_d") {
                Some(Value::Array(a)) => a.iter().map(fv).collect(),
                _ => vec![0.0; sh.len()],
            };
            let v: Vec<T> = sh.iter().zip(shd.iter()).map(|(&x, &d)| T::mk(x, d, 0)).collect();
            (mass, Vector::from_vec(v))
        })
        .collect()
}

fn trace_json(tr: Trace) -> Value {
    json!({
        "calls": tr.calls.iter().map(|c| json!([c.0, c.1, c.2, c.3])).collect::<Vec<_>>(),
        "to_f64": tr.to_f64.iter().map(|c| json!([c.0, format!("{:x}", c.1)])).collect::<Vec<_>>(),
        "from_f64": tr.from_f64,
        "control": format!("{:x}", tr.control),
        "compares": tr.compares,
    })
}

pub fn sample_with<T: Obs, const D: usize>(s: &SampleGenerator<D>, c: &Value) -> Value {
    let point: Vec<T> = point_of(c);
    let ed = edge_data_of::<T, D>(c);
    let settings = settings_of(c);
    let logger = VecLogger { entries: RefCell::new(vec![]) };
    reset_trace();
    let r = s.generate_sample_from_x_space_point(&point, ed, &settings, &logger);
    let tr = take_trace();
    let mut out = result_json(&r);
    let mut logs = serde_json::Map::new();
    for (k, v) in logger.entries.into_inner() {
        logs.insert(k, v);
    }
    out["log"] = Value::Object(logs);
    out["trace"] = trace_json(tr);
    out
}

fn one<const D: usize>(c: &Value) -> Value {
    let (g, sig) = graph_of(c);
    let s = match g.build_sampler::<D>(sig) {
        Ok(s) => s,
        Err(e) => return json!({ "build_err": e }),
    };
    let mut out = json!({ "dimension": s.get_dimension(), "table": serde_json::to_value(&s).unwrap()["table"]["table"].as_array().map(|a| a.len()) });
    // the f64 and the instrumented run are separate catch_unwind units
    let cs = c.clone();
    let s2 = s.clone();
    out["f64"] = guarded(move || sample_with::<f64, D>(&s2, &cs));
    let cs = c.clone();
    out["inst"] = guarded(move || sample_with::<Inst, D>(&s, &cs));
    out
}

pub fn run(input: &Value) -> Value {
    let outs: Vec<Value> = input["cases"]
        .as_array()
        .unwrap()
        .iter()
        .map(|c| {
            let c = c.clone();
            guarded(move || crate::cmd_table::dispatch_d(&c, [one::<1>, one::<2>, one::<3>, one::<4>, one::<5>, one::<6>]))
        })
        .collect();
    json!({ "results": outs })
}
