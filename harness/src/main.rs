//! mtharness: runs the implementation (momtrop at /repo's working tree) on cases
//! read as JSON from stdin and prints what it observed as JSON on stdout.
//! Floats travel as u64 bit patterns.  Every case runs under catch_unwind.
use serde_json::{json, Value};
use std::io::Read;

mod cmd_vector;
mod cmd_table;
mod cmd_oracle;
mod cmd_sample;
mod cmd_edge;
mod cmd_matrix;
mod cmd_history;
mod cmd_gamma;
mod cmd_integrate;
mod scalars;
mod valfmt;

pub fn f(b: u64) -> f64 {
    f64::from_bits(b)
}
pub fn b(x: f64) -> u64 {
    x.to_bits()
}
pub fn fv(v: &Value) -> f64 {
    f(v.as_u64().expect("u64 bits"))
}
pub fn fvec(v: &Value) -> Vec<f64> {
    v.as_array().expect("array").iter().map(fv).collect()
}
pub fn bvec(xs: &[f64]) -> Vec<u64> {
    xs.iter().map(|x| x.to_bits()).collect()
}

/// run one case, mapping a panic to {"panic": msg}
pub fn guarded<F: FnOnce() -> Value + std::panic::UnwindSafe>(fun: F) -> Value {
    match std::panic::catch_unwind(fun) {
        Ok(v) => v,
        Err(e) => {
            let msg = if let Some(s) = e.downcast_ref::<String>() {
                s.clone()
            } else if let Some(s) = e.downcast_ref::<&str>() {
                s.to_string()
            } else {
                "panic".to_string()
            };
            json!({ "panic": msg })
        }
    }
}

fn main() {
    std::panic::set_hook(Box::new(|_| {}));
    let cmd = std::env::args().nth(1).expect("command");
    let mut s = String::new();
    std::io::stdin().read_to_string(&mut s).unwrap();
    let input: Value = serde_json::from_str(&s).expect("json input");
    let out = match cmd.as_str() {
        "vector" => cmd_vector::run(&input),
        "table" => cmd_table::run(&input),
        "oracle" => cmd_oracle::run(&input),
        "sample" => cmd_sample::run(&input),
        "edge" => cmd_edge::run(&input),
        "matrix" => cmd_matrix::run(&input),
        "history" => cmd_history::run(&input),
        "gamma" => cmd_gamma::run(&input),
        "integrate" => cmd_integrate::run(&input),
        _ => panic!("unknown command"),
    };
    println!("\n@@JSON@@{}", serde_json::to_string(&out).unwrap());
}
