//! C01 (aggregate stage): Monte Carlo mean of the sample weight over the unit hypercube.
use crate::cmd_sample::*;
use crate::cmd_table::graph_of;
use crate::*;
use momtrop::log::DummyLogger;

struct Sm(u64);
impl Sm {
    fn next(&mut self) -> u64 {
        self.0 = self.0.wrapping_add(0x9E3779B97F4A7C15);
        let mut z = self.0;
        z = (z ^ (z >> 30)).wrapping_mul(0xBF58476D1CE4E5B9);
        z = (z ^ (z >> 27)).wrapping_mul(0x94D049BB133111EB);
        z ^ (z >> 31)
    }
    fn unit(&mut self) -> f64 {
        ((self.next() >> 11) as f64 + 0.5) * (1.0 / (1u64 << 53) as f64)
    }
}

fn one<const D: usize>(c: &Value) -> Value {
    let (g, sig) = graph_of(c);
    let s = match g.build_sampler::<D>(sig) {
        Ok(s) => s,
        Err(e) => return json!({ "build_err": e }),
    };
    let n = c["n"].as_u64().unwrap();
    let mut rng = Sm(c["seed"].as_u64().unwrap());
    let dim = s.get_dimension();
    let settings = settings_of(c);
    let (mut sum, mut sumsq, mut errs) = (0.0f64, 0.0f64, 0u64);
    for _ in 0..n {
        let pt: Vec<f64> = (0..dim).map(|_| rng.unit()).collect();
        let ed = edge_data_of::<f64, D>(c);
        match s.generate_sample_from_x_space_point(&pt, ed, &settings, &DummyLogger {}) {
            Ok(r) => {
                sum += r.jacobian;
                sumsq += r.jacobian * r.jacobian;
            }
            Err(_) => errs += 1,
        }
    }
    json!({ "n": n, "sum": b(sum), "sumsq": b(sumsq), "errors": errs })
}

pub fn run(input: &Value) -> Value {
    let outs: Vec<Value> = input["cases"]
        .as_array()
        .unwrap()
        .iter()
        .map(|c| {
            let c = c.clone();
            guarded(move || crate::cmd_table::dispatch_d(&c, [one::<1>, one::<2>, one::<3>, one::<4>, one::<5>, one::<6>]))
        })
        .collect();
    json!({ "results": outs })
}
