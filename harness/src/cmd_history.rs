//! C17/C18: call histories on one shared sampler (one thread or several), from_rng vs
//! from_x_space_point, settings combinations, serde round trips.
use crate::cmd_sample::*;
use crate::cmd_table::graph_of;
use crate::scalars::Inst;
use crate::*;
use momtrop::log::DummyLogger;
use momtrop::SampleGenerator;
use rand::{Error, RngCore};
use std::sync::{Arc, Barrier};

/// an RNG that replays a recorded list of u64 draws and counts them
pub struct CountingRng {
    pub draws: Vec<u64>,
    pub pos: usize,
}
impl RngCore for CountingRng {
    fn next_u32(&mut self) -> u32 {
        self.next_u64() as u32
    }
    fn next_u64(&mut self) -> u64 {
        let v = self.draws[self.pos % self.draws.len()];
        self.pos += 1;
        v
    }
    fn fill_bytes(&mut self, dest: &mut [u8]) {
        for chunk in dest.chunks_mut(8) {
            let v = self.next_u64().to_le_bytes();
            chunk.copy_from_slice(&v[..chunk.len()]);
        }
    }
    fn try_fill_bytes(&mut self, dest: &mut [u8]) -> Result<(), Error> {
        self.fill_bytes(dest);
        Ok(())
    }
}

fn _assert_sync<T: Sync + Send>() {}

/// numerical fields of one call, as bits (metadata presence reported separately)
fn call<const D: usize>(s: &SampleGenerator<D>, op: &Value) -> Value {
    let settings = settings_of(op);
    let mut out = if op["kind"] == "rng" {
        let draws: Vec<u64> = op["draws"].as_array().unwrap().iter().map(|x| x.as_u64().unwrap()).collect();
        let mut rng = CountingRng { draws, pos: 0 };
        let ed = edge_data_of::<f64, D>(op);
        let r = s.generate_sample_from_rng(ed, &settings, &mut rng, &DummyLogger {});
        let mut o = result_json(&r);
        o["rng_draws"] = json!(rng.pos);
        o
    } else if op["scalar"] == "inst" {
        let p: Vec<Inst> = point_of(op);
        let ed = edge_data_of::<Inst, D>(op);
        result_json(&s.generate_sample_from_x_space_point(&p, ed, &settings, &DummyLogger {}))
    } else {
        let p: Vec<f64> = point_of(op);
        let ed = edge_data_of::<f64, D>(op);
        result_json(&s.generate_sample_from_x_space_point(&p, ed, &settings, &DummyLogger {}))
    };
    out["has_metadata"] = json!(!out["metadata"].is_null());
    out
}

fn one<const D: usize>(c: &Value) -> Value {
    _assert_sync::<SampleGenerator<D>>();
    let (g, sig) = graph_of(c);
    let s = match g.build_sampler::<D>(sig) {
        Ok(s) => s,
        Err(e) => return json!({ "build_err": e }),
    };
    let before = serde_json::to_string(&s).unwrap();
    let ops: Vec<Value> = c["ops"].as_array().unwrap().clone();
    let nthreads = c["threads"].as_u64().unwrap_or(1) as usize;
    let mut results: Vec<Value> = vec![Value::Null; ops.len()];
    if nthreads <= 1 {
        for (i, op) in ops.iter().enumerate() {
            let s2 = &s;
            let op2 = op.clone();
            results[i] = guarded(std::panic::AssertUnwindSafe(move || call(s2, &op2)));
        }
    } else {
        let shared = Arc::new(s.clone());
        let barrier = Arc::new(Barrier::new(nthreads));
        let ops = Arc::new(ops);
        let mut handles = vec![];
        for t in 0..nthreads {
            let sh = shared.clone();
            let ba = barrier.clone();
            let ops = ops.clone();
            handles.push(std::thread::spawn(move || {
                std::panic::set_hook(Box::new(|_| {}));
                ba.wait();
                let mut outs = vec![];
                let mut i = t;
                while i < ops.len() {
                    let shr = &*sh;
                    let op = ops[i].clone();
                    outs.push((i, guarded(std::panic::AssertUnwindSafe(move || call(shr, &op)))));
                    if i % 3 == 0 {
                        std::thread::yield_now();
                    }
                    i += nthreads;
                }
                outs
            }));
        }
        for h in handles {
            for (i, v) in h.join().unwrap() {
                results[i] = v;
            }
        }
    }
    // every op once more on a freshly built sampler
    let fresh: Vec<Value> = c["ops"]
        .as_array()
        .unwrap()
        .iter()
        .map(|op| {
            let (g, sig) = graph_of(c);
            let s = g.build_sampler::<D>(sig).unwrap();
            let op2 = op.clone();
            guarded(std::panic::AssertUnwindSafe(move || call(&s, &op2)))
        })
        .collect();
    let after = serde_json::to_string(&s).unwrap();
    // serde round trips through two self-describing formats
    let from_json: SampleGenerator<D> = match serde_json::from_str(&before) {
        Ok(x) => x,
        Err(e) => return json!({ "restore_err": format!("serde_json: {e}"), "json_text": before, "results": results, "fresh": fresh, "sampler_unchanged": before == after }),
    };
    let mut cb = Vec::new();
    ciborium::ser::into_writer(&s, &mut cb).unwrap();
    let from_cbor: SampleGenerator<D> = match ciborium::de::from_reader(cb.as_slice()) {
        Ok(x) => x,
        Err(e) => return json!({ "restore_err": format!("ciborium: {e}"), "json_text": before, "results": results, "fresh": fresh, "sampler_unchanged": before == after }),
    };
    let mut cb2 = Vec::new();
    ciborium::ser::into_writer(&from_cbor, &mut cb2).unwrap();
    // a third self-describing format: value tree with structs as positional sequences (as MessagePack's compact mode)
    let tree = match crate::valfmt::to_value(&s, false) {
        Ok(t) => t,
        Err(e) => return json!({ "restore_err": format!("valfmt(compact) serialise: {}", e.0), "json_text": before, "results": results, "fresh": fresh, "sampler_unchanged": before == after }),
    };
    let from_compact: SampleGenerator<D> = match crate::valfmt::from_value(tree.clone()) {
        Ok(x) => x,
        Err(e) => return json!({ "restore_err": format!("valfmt(compact, structs as sequences): {}", e.0), "json_text": before, "results": results, "fresh": fresh, "sampler_unchanged": before == after }),
    };
    let compact_identical = match crate::valfmt::to_value(&from_compact, false) {
        Ok(t2) => format!("{:?}", t2) == format!("{:?}", tree),
        Err(_) => false,
    };
    let restored_compact: Vec<Value> = c["ops"].as_array().unwrap().iter().map(|op| {
        let op2 = op.clone(); let sr = &from_compact;
        guarded(std::panic::AssertUnwindSafe(move || call(sr, &op2))) }).collect();
    let restored_json: Vec<Value> = c["ops"].as_array().unwrap().iter().map(|op| {
        let op2 = op.clone(); let sr = &from_json;
        guarded(std::panic::AssertUnwindSafe(move || call(sr, &op2))) }).collect();
    let restored_cbor: Vec<Value> = c["ops"].as_array().unwrap().iter().map(|op| {
        let op2 = op.clone(); let sr = &from_cbor;
        guarded(std::panic::AssertUnwindSafe(move || call(sr, &op2))) }).collect();
    json!({
        "results": results, "fresh": fresh,
        "sampler_unchanged": before == after,
        "json": serde_json::from_str::<Value>(&before).unwrap(),
        "json_text": before.clone(),
        "json_roundtrip_identical": serde_json::to_string(&from_json).unwrap() == before,
        "cbor_roundtrip_identical": cb == cb2,
        "restored_json": restored_json, "restored_cbor": restored_cbor, "restored_compact": restored_compact,
        "compact_roundtrip_identical": compact_identical,
        "restored_dimension": [from_json.get_dimension(), from_cbor.get_dimension(), s.get_dimension(), from_compact.get_dimension()],
        "restored_dod": [b(from_json.get_dod()), b(from_cbor.get_dod()), b(s.get_dod()), b(from_compact.get_dod())],
    })
}

/// the concurrent passes need one OS thread per sampler: when the machine refuses one, say so and stop (exit code 75);
/// threads already waiting at the barrier would otherwise wait for ever
fn spawn_or_exit<F: FnOnce() -> Value + Send + 'static>(f: F) -> std::thread::JoinHandle<Value> {
    match std::thread::Builder::new().spawn(f) {
        Ok(h) => h,
        Err(e) => {
            eprintln!("failed to spawn thread: {e}");
            std::process::exit(75);
        }
    }
}

static STRESS_BARRIER: std::sync::Mutex<Option<Arc<Barrier>>> = std::sync::Mutex::new(None);

/// one sampler on its own thread, started together with the others: `rounds` passes over the first ops of the case;
/// for every op the distinct outputs seen (a pure function gives exactly one)
fn stress<const D: usize>(c: &Value) -> Value {
    let barrier = STRESS_BARRIER.lock().unwrap().clone();
    // every thread must reach the barrier, also one whose build panics
    let built = std::panic::catch_unwind(std::panic::AssertUnwindSafe(|| {
        let (g, sig) = graph_of(c);
        g.build_sampler::<D>(sig)
    }));
    if let Some(b) = barrier {
        b.wait();
    }
    let s = match built {
        Ok(Ok(s)) => s,
        Ok(Err(e)) => return json!({ "build_err": e }),
        Err(_) => return json!({ "panic": "build_sampler" }),
    };
    let ops: Vec<Value> = c["ops"].as_array().unwrap().iter().take(c["stress_ops"].as_u64().unwrap_or(16) as usize).cloned().collect();
    let rounds = c["stress_rounds"].as_u64().unwrap_or(100);
    let mut distinct: Vec<Vec<Value>> = vec![vec![]; ops.len()];
    for _ in 0..rounds {
        for (i, op) in ops.iter().enumerate() {
            let sr = &s;
            let op2 = op.clone();
            let mut v = guarded(std::panic::AssertUnwindSafe(move || call(sr, &op2)));
            if let Some(o) = v.as_object_mut() {
                o.remove("metadata");
            }
            if !distinct[i].contains(&v) && distinct[i].len() < 4 {
                distinct[i].push(v);
            }
        }
    }
    json!({ "distinct": distinct })
}

pub fn run(input: &Value) -> Value {
    if input["stress"].as_bool().unwrap_or(false) || input["parallel_cases"].as_bool().unwrap_or(false) {
        // the concurrent passes are a search, not the deciding argument: on a machine where they do not finish, give up (exit 75)
        let limit = input["watchdog_s"].as_u64().unwrap_or(300);
        let _ = std::thread::Builder::new().spawn(move || {
            std::thread::sleep(std::time::Duration::from_secs(limit));
            eprintln!("failed to finish the concurrent pass within {limit} s");
            std::process::exit(75);
        });
    }
    if input["stress"].as_bool().unwrap_or(false) {
        let n = input["cases"].as_array().unwrap().len();
        *STRESS_BARRIER.lock().unwrap() = Some(Arc::new(Barrier::new(n)));
        let handles: Vec<_> = input["cases"]
            .as_array()
            .unwrap()
            .iter()
            .map(|c| {
                let c = c.clone();
                spawn_or_exit(move || {
                    std::panic::set_hook(Box::new(|_| {}));
                    crate::cmd_table::dispatch_d(&c, [stress::<1>, stress::<2>, stress::<3>, stress::<4>, stress::<5>, stress::<6>])
                })
            })
            .collect();
        let outs: Vec<Value> = handles.into_iter().map(|h| h.join().unwrap_or(json!({ "panic": "case thread" }))).collect();
        return json!({ "results": outs });
    }
    // all cases at once, each on its own thread: different samplers used concurrently must not influence each other
    if input["parallel_cases"].as_bool().unwrap_or(false) {
        let handles: Vec<_> = input["cases"]
            .as_array()
            .unwrap()
            .iter()
            .map(|c| {
                let c = c.clone();
                spawn_or_exit(move || {
                    std::panic::set_hook(Box::new(|_| {}));
                    guarded(move || crate::cmd_table::dispatch_d(&c, [one::<1>, one::<2>, one::<3>, one::<4>, one::<5>, one::<6>]))
                })
            })
            .collect();
        let outs: Vec<Value> = handles.into_iter().map(|h| h.join().unwrap_or(json!({ "panic": "case thread" }))).collect();
        return json!({ "results": outs });
    }
    let outs: Vec<Value> = input["cases"]
        .as_array()
        .unwrap()
        .iter()
        .map(|c| {
            let c = c.clone();
            guarded(move || crate::cmd_table::dispatch_d(&c, [one::<1>, one::<2>, one::<3>, one::<4>, one::<5>, one::<6>]))
        })
        .collect();
    json!({ "results": outs })
}
