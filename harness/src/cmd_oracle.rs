//! Answers oracle queries with the very functions the implementation calls:
//! f64::{ln,exp,cos,sin,powf} and statrs::function::gamma::{gamma,gamma_lr,gamma_ur}.
use crate::*;
use statrs::function::gamma::{gamma, gamma_lr, gamma_ur};

pub fn eval(op: u64, a: f64, bb: f64) -> Option<f64> {
    let r = std::panic::catch_unwind(|| match op {
        1 => a.ln(),
        2 => a.exp(),
        3 => a.cos(),
        4 => a.sin(),
        5 => a.powf(bb),
        6 => gamma(a),
        7 => gamma_lr(a, bb),
        8 => gamma_ur(a, bb),
        // the Gamma quantile as the sampler calls it (its own model is checked by C12)
        9 => momtrop::gamma::inverse_gamma_lr_impl(a, bb, 50, 5.0),
        _ => panic!("op"),
    });
    r.ok()
}

pub fn run(input: &Value) -> Value {
    let outs: Vec<Value> = input["queries"]
        .as_array()
        .unwrap()
        .iter()
        .map(|q| {
            let op = q[0].as_u64().unwrap();
            match eval(op, fv(&q[1]), fv(&q[2])) {
                Some(r) => json!(b(r)),
                None => Value::Null, // statrs panicked (x <= 0 or infinite)
            }
        })
        .collect();
    json!({ "results": outs })
}
