//! C20: Vector<T,D> and `impl MomTropFloat for f64` primitives, at T = f64.
use crate::*;
use momtrop::float::MomTropFloat;
use momtrop::vector::Vector;

fn one<const D: usize>(c: &Value) -> Value {
    let u = fvec(&c["u"]);
    let v = fvec(&c["v"]);
    let s = fv(&c["c"]);
    let vu: Vector<f64, D> = Vector::from_vec(u.clone());
    let vv: Vector<f64, D> = Vector::from_vec(v.clone());
    let arr: [f64; D] = u.clone().try_into().unwrap();
    let from_array = Vector::<f64, D>::from_array(arr);
    let from_slice = Vector::<f64, D>::from_slice(&arr);
    let add = &vu + &vv;
    let sub = &vu - &vv;
    let scale_val = &vu * s;
    let scale_ref = &vu * &s;
    let mut aa = vu;
    aa += vv;
    let idx: Vec<u64> = (0..D).map(|i| b(vu[i])).collect();
    let mut im = vu;
    for i in 0..D {
        im[i] = vv[i];
    }
    json!({
        "from_vec": bvec(&vu.get_elements()),
        "from_array": bvec(&from_array.get_elements()),
        "from_slice": bvec(&from_slice.get_elements()),
        "index": idx,
        "index_mut": bvec(&im.get_elements()),
        "len": vu.len(),
        "zero": b(vu.zero()),
        "new": bvec(&vu.new().get_elements()),
        "new_from_num": bvec(&Vector::<f64, D>::new_from_num(&s).get_elements()),
        "add": bvec(&add.get_elements()),
        "sub": bvec(&sub.get_elements()),
        "scale_val": bvec(&scale_val.get_elements()),
        "scale_ref": bvec(&scale_ref.get_elements()),
        "add_assign": bvec(&aa.get_elements()),
        "dot": b(vu.dot(&vv)),
        "dot_rev": b(vv.dot(&vu)),
        "squared": b(vu.squared()),
    })
}

fn scalar(c: &Value) -> Value {
    let x = fv(&c["x"]);
    let y = fv(&c["y"]);
    let n = c["n"].as_i64().unwrap() as isize;
    json!({
        "inv": b(MomTropFloat::inv(&x)),
        "from_isize": b(x.from_isize(n)),
        "from_f64": b(x.from_f64(y)),
        "to_f64": b(MomTropFloat::to_f64(&x)),
        "pi": b(x.PI()),
        "zero": b(MomTropFloat::zero(&x)),
        "one": b(MomTropFloat::one(&x)),
        "abs": b(MomTropFloat::abs(&x)),
        "sqrt": b(MomTropFloat::sqrt(&x)),
        // transcendental methods vs the standard library's own (the oracle)
        "ln": [b(MomTropFloat::ln(&x)), b(f64::ln(x))],
        "exp": [b(MomTropFloat::exp(&x)), b(f64::exp(x))],
        "cos": [b(MomTropFloat::cos(&x)), b(f64::cos(x))],
        "sin": [b(MomTropFloat::sin(&x)), b(f64::sin(x))],
        "powf": [b(MomTropFloat::powf(&x, &y)), b(f64::powf(x, y))],
        "std_pi": b(std::f64::consts::PI),
    })
}

pub fn run(input: &Value) -> Value {
    let cases = input["cases"].as_array().unwrap();
    let outs: Vec<Value> = cases
        .iter()
        .map(|c| {
            let c = c.clone();
            guarded(move || {
                if c["kind"] == "scalar" {
                    return scalar(&c);
                }
                match c["d"].as_u64().unwrap() {
                    1 => one::<1>(&c),
                    2 => one::<2>(&c),
                    3 => one::<3>(&c),
                    4 => one::<4>(&c),
                    5 => one::<5>(&c),
                    6 => one::<6>(&c),
                    7 => one::<7>(&c),
                    8 => one::<8>(&c),
                    _ => panic!("unsupported D"),
                }
            })
        })
        .collect();
    json!({ "results": outs })
}
