//! C12: momtrop::gamma::inverse_gamma_lr on given (a, p), plus a recording MIRROR of
//! inverse_gamma_lr_impl (a copy of the algorithm whose ln/exp/powf/gamma/gamma_lr/gamma_ur
//! calls go through `Rec`).  The mirror only pre-computes the oracle table shipped to the
//! Coq model (answers always come from libm/statrs themselves); it is not trusted: what is
//! compared is the model's result against the REAL function's result.
use crate::*;
use statrs::function::gamma::{gamma, gamma_lr, gamma_ur};

pub struct Rec {
    pub calls: Vec<(u8, u64, u64, Option<u64>)>,
    pub panicked: bool,
}
impl Rec {
    fn r1(&mut self, op: u8, a: f64, r: f64) -> f64 {
        self.calls.push((op, a.to_bits(), 0, Some(r.to_bits())));
        r
    }
    fn ln(&mut self, x: f64) -> f64 {
        self.r1(1, x, x.ln())
    }
    fn exp(&mut self, x: f64) -> f64 {
        self.r1(2, x, x.exp())
    }
    fn powf(&mut self, x: f64, y: f64) -> f64 {
        let r = x.powf(y);
        self.calls.push((5, x.to_bits(), y.to_bits(), Some(r.to_bits())));
        r
    }
    fn gamma(&mut self, x: f64) -> f64 {
        self.r1(6, x, gamma(x))
    }
    fn inc(&mut self, op: u8, a: f64, x: f64) -> Option<f64> {
        let r = std::panic::catch_unwind(|| if op == 7 { gamma_lr(a, x) } else { gamma_ur(a, x) }).ok();
        self.calls.push((op, a.to_bits(), x.to_bits(), r.map(|v| v.to_bits())));
        if r.is_none() {
            self.panicked = true;
        }
        r
    }
}

fn cseries(k: &mut Rec, a: f64, y: f64) -> f64 {
    let c1 = (a - 1.0) * k.ln(y);
    let c2 = (a - 1.0) * (1.0 + c1);
    let c3 = (a - 1.0) * (-0.5 * c1 * c1 + (a - 2.0) * c1 + (3.0 * a - 5.0) * 0.5);
    let c4 = (a - 1.0)
        * (1.0 / 3.0 * c1 * c1 * c1 - (3.0 * a - 5.0) * 0.5 * c1 * c1
            + (a * a - 6.0 * a + 7.0) * c1
            + (11.0 * a * a - 46.0 * a + 47.0) / 6.0);
    let c5 = (a - 1.0)
        * (-0.25 * c1 * c1 * c1 * c1
            + (11.0 * a - 7.0) / 6.0 * c1 * c1 * c1
            + (-3.0 * a * a - 13.0) * c1 * c1
            + (2.0 * a * a * a - 25.0 * a * a + 72.0 * a - 61.0) * 0.5 * c1
            + (25.0 * a * a * a - 195.0 * a * a + 477.0 * a - 379.0) / 12.0);
    y + c1 + c2 / (y) + c3 / (y * y) + c4 / (y * y * y) + c5 / (y * y * y * y)
}

/// returns (result, exit tag) ; None = a statrs panic was reached
pub fn mirror(k: &mut Rec, a: f64, p: f64, max_n_iter: usize, eps: f64) -> Option<(f64, u8)> {
    let q = 1.0 - p;
    if (1.0 - 1.0e-8..=1.0 + 1.0e-8).contains(&a) {
        return Some((-k.ln(q), 1));
    }
    let gamma_a = k.gamma(a);
    let b = q * gamma_a;
    let c = 0.577_215_664_901_532_9;
    let mut x0 = 0.5;
    if a < 1.0 {
        if b > 0.6 || (b >= 0.45 && a >= 0.3) {
            let u = if b * q > 10e-8 {
                let g1 = k.gamma(a + 1.0);
                k.powf(p * g1, a.recip())
            } else {
                k.exp(-q / a - c)
            };
            x0 = u / (1.0 - u / (a + 1.0));
        } else if a < 0.3 && (0.35..=0.6).contains(&b) {
            let t = k.exp(-c - b);
            let u = t * k.exp(t);
            x0 = t * k.exp(u);
        } else if (0.15..=0.35).contains(&b) || ((0.15..0.45).contains(&b) && a >= 0.3) {
            let y = -k.ln(b);
            let u = y - (1.0 - a) * k.ln(y);
            x0 = y - (1.0 - a) * k.ln(y) - k.ln(1.0 + (1.0 - a) / (1.0 + u));
        } else if 0.01 < b && b < 0.15 {
            let y = -k.ln(b);
            let u = y - (1.0 - a) * k.ln(y);
            x0 = y
                - (1.0 - a) * k.ln(u)
                - k.ln((u * u + 2.0 * (3.0 - a) * u + (2.0 - a) * (3.0 - a)) / (u * u + (5.0 - a) * u + 2.0));
        } else if b <= 0.01 {
            let y = -k.ln(b);
            x0 = cseries(k, a, y);
            if b <= 1.0e-28 {
                return Some((x0, 2));
            }
        }
    } else {
        let pref;
        let tau;
        if p < 0.5 {
            pref = -1.0;
            tau = p;
        } else {
            pref = 1.0;
            tau = q;
        }
        let t = (-2.0 * k.ln(tau)).sqrt();
        let a_0 = 3.31125922108741;
        let a_1 = 11.6616720288968;
        let a_2 = 4.28342155967104;
        let a_3 = 0.213623493715853;
        let b_1 = 6.61053765625462;
        let b_2 = 6.40691597760039;
        let b_3 = 1.27364489782223;
        let b_4 = 3.611_708_101_884_203e-2;
        let t2 = t * t;
        let t3 = t2 * t;
        let t4 = t3 * t;
        let numerator = a_0 + a_1 * t + a_2 * t2 + a_3 * t3;
        let denominator = 1.0 + b_1 * t + b_2 * t2 + b_3 * t3 + b_4 * t4;
        let s = pref * (t - numerator / denominator);
        let s2 = s * s;
        let s3 = s * s2;
        let s4 = s * s3;
        let s5 = s * s4;
        let a_sqrt = a.sqrt();
        let w = a + s * a_sqrt + (s2 - 1.0) / 3.0 + (s3 - 7.0 * s) / (36.0 * a_sqrt)
            - (3.0 * s4 + 7.0 * s2 - 16.0) / (810.0 * a)
            + (9.0 * s5 + 256.0 * s3 - 433.0 * s) / (38880.0 * a * a_sqrt);
        if a >= 500.0 && (1.0 - w / a).abs() < 1.0e-6 {
            return Some((w, 3));
        } else if p > 0.5 {
            if w < 3.0 * a {
                x0 = w;
            } else {
                let d = 2f64.max(a * (a - 1.0));
                if b > k.powf(10f64, -d) {
                    let u = -k.ln(b) + (a - 1.0) * k.ln(w) - k.ln(1.0 + (1.0 - a) / (1.0 + w));
                    x0 = -k.ln(b) + (a - 1.0) * k.ln(u) - k.ln(1.0 + (1.0 - a) / (1.0 + u));
                } else {
                    let y = -k.ln(b);
                    x0 = cseries(k, a, y);
                }
            }
        } else {
            let g1 = k.gamma(a + 1.0);
            let v = k.ln(p * g1);
            x0 = k.exp((v + w) / a);
        }
    }
    let mut x_n = x0;
    for _ in 0..max_n_iter {
        let pw = k.powf(x_n, a - 1.0);
        let r = pw * k.exp(-x_n) / gamma_a;
        if x_n <= 0. {
            x_n = 1.0e-16;
        }
        let err = if p <= 0.5 { k.inc(7, a, x_n)? - p } else { -(k.inc(8, a, x_n)? - q) };
        if err.abs() < eps * f64::EPSILON {
            return Some((x_n, 4));
        }
        let t_n = err / r;
        let w_n = (a - 1.0 - x_n) / 2.0;
        let h_n = if t_n.abs() <= 0.1 && (w_n * t_n).abs() <= 0.1 { t_n + w_n * t_n * t_n } else { t_n };
        x_n -= h_n;
    }
    Some((x_n, 5))
}

pub fn run(input: &Value) -> Value {
    let outs: Vec<Value> = input["cases"]
        .as_array()
        .unwrap()
        .iter()
        .map(|c| {
            let a = fv(&c["a"]);
            let p = fv(&c["p"]);
            let n = c["n"].as_u64().unwrap_or(50) as usize;
            let eps = c["eps"].as_u64().map(f).unwrap_or(5.0);
            let real = guarded(move || match momtrop::gamma::inverse_gamma_lr(&a, &p, n, &eps) {
                Ok(x) => json!({ "ok": b(x) }),
                Err(_) => json!({ "err": true }),
            });
            let real_impl = guarded(move || json!({ "v": b(momtrop::gamma::inverse_gamma_lr_impl(a, p, n, eps)) }));
            let mut k = Rec { calls: vec![], panicked: false };
            let m = mirror(&mut k, a, p, n, eps);
            // accuracy references computed by statrs itself (validated separately against mpmath)
            json!({
                "real": real, "real_impl": real_impl,
                "mirror": m.map(|(x, t)| json!([b(x), t])),
                "calls": k.calls.iter().map(|c| json!([c.0, c.1, c.2, c.3])).collect::<Vec<_>>(),
            })
        })
        .collect();
    json!({ "results": outs })
}
