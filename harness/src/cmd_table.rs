//! C03/C04/C05/C18: build a sampler from a graph and report everything that is
//! observable about the table: the serde serialisation and the getters.
use crate::*;
use momtrop::{Edge, Graph, SampleGenerator};

pub fn graph_of(c: &Value) -> (Graph, Vec<Vec<isize>>) {
    let edges = c["edges"]
        .as_array()
        .unwrap()
        .iter()
        .map(|e| Edge {
            vertices: (e[0].as_u64().unwrap() as u8, e[1].as_u64().unwrap() as u8),
            is_massive: e[2].as_bool().unwrap(),
            weight: fv(&e[3]),
        })
        .collect();
    let externals = c["externals"].as_array().unwrap().iter().map(|v| v.as_u64().unwrap() as u8).collect();
    let sig = match c.get("signature") {
        Some(Value::Array(rows)) => rows
            .iter()
            .map(|r| r.as_array().unwrap().iter().map(|x| x.as_i64().unwrap() as isize).collect())
            .collect(),
        _ => vec![],
    };
    (Graph { edges, externals }, sig)
}

pub fn cget<'a>(v: &'a ciborium::value::Value, key: &str) -> &'a ciborium::value::Value {
    match v {
        ciborium::value::Value::Map(m) => {
            for (k, val) in m {
                if let ciborium::value::Value::Text(t) = k {
                    if t == key {
                        return val;
                    }
                }
            }
            panic!("CBOR: key {} missing", key)
        }
        _ => panic!("CBOR: not a map"),
    }
}

pub fn cfloat(v: &ciborium::value::Value) -> u64 {
    match v {
        ciborium::value::Value::Float(x) => x.to_bits(),
        ciborium::value::Value::Integer(i) => (i128::from(*i) as f64).to_bits(),
        _ => panic!("CBOR: not a float"),
    }
}

pub fn describe<const D: usize>(s: &SampleGenerator<D>) -> Value {
    json!({
        "ok": true,
        "json": serde_json::to_value(s).unwrap(),
        "dimension": s.get_dimension(),
        "dod": b(s.get_dod()),
        "num_edges": s.get_num_edges(),
        "weights": s.iter_edge_weights().map(b).collect::<Vec<u64>>(),
        "smallest_dod": b(s.get_smallest_dod()),
    })
}

fn build<const D: usize>(c: &Value) -> Value {
    let (g, sig) = graph_of(c);
    match g.build_sampler::<D>(sig) {
        Ok(s) => {
            let mut d = describe(&s);
            // the float fields once more as bit patterns, through CBOR (JSON numbers cannot carry inf/nan)
            let cv = ciborium::value::Value::serialized(&s).unwrap();
            let table = cget(&cv, "table");
            let tab = match cget(table, "table") {
                ciborium::value::Value::Array(a) => a.clone(),
                _ => panic!("table.table not an array"),
            };
            let jb: Vec<u64> = tab.iter().map(|e| cfloat(cget(e, "j_function"))).collect();
            let db: Vec<u64> = tab.iter().map(|e| cfloat(cget(e, "generalized_dod"))).collect();
            d["j_bits"] = json!(jb);
            d["dod_bits"] = json!(db);
            d["factor_bits"] = json!(cfloat(cget(table, "cached_factor")));
            d
        }
        Err(msg) => json!({ "ok": false, "err": msg }),
    }
}

pub fn dispatch_d(c: &Value, fs: [fn(&Value) -> Value; 6]) -> Value {
    let d = c["D"].as_u64().unwrap() as usize;
    assert!((1..=6).contains(&d), "unsupported D");
    fs[d - 1](c)
}

pub fn run(input: &Value) -> Value {
    let outs: Vec<Value> = input["cases"]
        .as_array()
        .unwrap()
        .iter()
        .map(|c| {
            let c = c.clone();
            guarded(move || dispatch_d(&c, [build::<1>, build::<2>, build::<3>, build::<4>, build::<5>, build::<6>]))
        })
        .collect();
    json!({ "results": outs })
}
