//! C06: TropicalSubgraphTable::sample_edge at chosen (subgraph id, uniform) through the
//! cfg(momtrop_verif) hook.  Each query is its own catch_unwind unit.
use crate::cmd_table::graph_of;
use crate::*;

fn one<const D: usize>(c: &Value) -> Value {
    let (g, sig) = graph_of(c);
    let s = match g.build_sampler::<D>(sig) {
        Ok(s) => s,
        Err(e) => return json!({ "build_err": e }),
    };
    let outs: Vec<Value> = c["queries"]
        .as_array()
        .unwrap()
        .iter()
        .map(|q| {
            let id = q[0].as_u64().unwrap() as usize;
            let u = fv(&q[1]);
            let s2 = s.clone();
            guarded(move || {
                let (e, rest) = s2.verif_sample_edge(&u, id);
                json!([e, rest])
            })
        })
        .collect();
    json!({ "answers": outs })
}

pub fn run(input: &Value) -> Value {
    let outs: Vec<Value> = input["cases"]
        .as_array()
        .unwrap()
        .iter()
        .map(|c| {
            let c = c.clone();
            guarded(move || crate::cmd_table::dispatch_d(&c, [one::<1>, one::<2>, one::<3>, one::<4>, one::<5>, one::<6>]))
        })
        .collect();
    json!({ "results": outs })
}
