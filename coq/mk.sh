#!/bin/bash
# build helper: make under a timeout, print errors and the exit status (development aid)
cd /verif/coq
timeout ${1:-600} make -j16 > /tmp/scratch/mk.log 2>&1
rc=$?
grep -B3 -A30 "^Error\|Unable\|The term" /tmp/scratch/mk.log | head -${2:-50}
echo "make exit=$rc"
