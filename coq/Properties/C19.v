(* Properties/C19.v -- user precision is preserved: only the Gamma draw narrows to f64.
   Statements only. *)
From Coq Require Import ZArith List.
From MT Require Import Model.Scalar Model.Table Model.Sampling Proofs.PrecisionProofs.
Import ListNotations.

(* Replace the narrowing function [to_f64] of the user's dictionary by ANY other function:
   if the Gamma draw is not affected, nothing in the sample is -- for every table, point,
   signature, edge data and settings; i.e. sector sampling, the L matrix, the whole matrix
   routine, the Gaussian vectors, u-vectors, V, loop momenta, shift and jacobian never call
   to_f64.  (With print_debug_info the code also narrows for logging only; the model's
   logging is not part of the result.) *)
Theorem C19_only_gamma : forall (C T : Type) (SC : Scalar C C) (S : Scalar C T) (f : T -> C)
    (igam_impl : C -> C -> nat -> C -> res C) (c_is_value : C -> bool)
    (t : table C) (D : nat) (x : list T) (sig : list (list Z)) (ed : list (option T * list T)) (st : settings C),
  (forall a p n eps, inverse_gamma_lr (with_to_c S f) igam_impl c_is_value a p n eps =
                     inverse_gamma_lr S igam_impl c_is_value a p n eps) ->
  sample SC (with_to_c S f) igam_impl c_is_value t D x sig ed st = sample SC S igam_impl c_is_value t D x sig ed st.
Proof. exact (@sample_only_gamma). Qed.
Print Assumptions C19_only_gamma.

(* the Gamma draw narrows exactly its three scalar arguments (shape, probability, tolerance)
   and re-enters the user's type through from_f64 *)
Theorem C19_gamma_boundary : forall (C T : Type) (S : Scalar C T)
    (igam_impl : C -> C -> nat -> C -> res C) (c_is_value : C -> bool) (a p : T) (n : nat) (eps : T),
  inverse_gamma_lr S igam_impl c_is_value a p n eps =
  rbind (igam_impl (s_to_c S a) (s_to_c S p) n (s_to_c S eps))
        (fun r => Ok (if c_is_value r then Some (s_of_c S r) else None)).
Proof. exact (@gamma_draw_narrows). Qed.
Print Assumptions C19_gamma_boundary.

(* the stages one by one (each is the same function whatever to_f64 is) *)
Theorem C19_stages : forall (C T : Type) (SC : Scalar C C) (S : Scalar C T) (f : T -> C),
  (forall t r, permatuhedral_sampling SC (with_to_c S f) t r = permatuhedral_sampling SC S t r) /\
  (forall x sig L, compute_l_matrix (with_to_c S f) x sig L = compute_l_matrix S x sig L) /\
  (forall n m st, Matrix.decompose_for_tropical (with_to_c S f) n m st = Matrix.decompose_for_tropical S n m st) /\
  (forall r D L, sample_q_vectors (with_to_c S f) r D L = sample_q_vectors S r D L) /\
  (forall D v lam L qi qs li us, compute_loop_momenta (with_to_c S f) D v lam L qi qs li us = compute_loop_momenta S D v lam L qi qs li us).
Proof.
  intros C T SC S f.
  exact (conj (sector_same SC S f) (conj (lmatrix_same S f) (conj (decompose_same S f)
        (conj (qvec_same S f) (momenta_same S f))))).
Qed.
Print Assumptions C19_stages.

(* non-vacuity: a dictionary whose to_f64 is replaced really is a different dictionary *)
From Coq Require Import Floats.
From MT Require Import Model.F64.
Example C19_example : s_to_c (with_to_c (F64 []) (fun _ => 0%float)) 1%float = 0%float /\ s_to_c (F64 []) 1%float = 1%float.
Proof. split; reflexivity. Qed.
