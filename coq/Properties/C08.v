(* Properties/C08.v -- returned U is the first Symanzik polynomial of the graph.
   Statements only.
   PROVED here (every scalar type, any E x L integer signature): the L matrix of the metadata
   has L*L entries, entry (i,j) is the accumulation over the edges, in index order from zero, of
   from_isize(s_ei*s_ej)*x_e, and it is symmetric bit for bit.  In Properties/C08 section
   "determinant" (MathComp, Proofs/LinAlg.v): L = S^T X S, the returned u is det L for the
   model's decomposition, and det(S^T X S) is invariant under unimodular changes of cycle basis
   and edge reorientation.
   NOT PROVED (named gap): "(det S_I)^2 is 1 if E \ I is a spanning tree and 0 otherwise" for a
   cycle basis S (Binet-Cauchy + totally unimodular), i.e. that det L is the spanning-tree sum;
   validated on every run by spanning-tree enumeration in exact rationals. *)
From Coq Require Import ZArith List.
From MT Require Import Model.Scalar Model.Matrix Model.Sampling Proofs.LMatrix.
Import ListNotations.
Local Open Scope nat_scope.

Theorem C08_entries : forall (C T : Type) (S : Scalar C T) (x : list T) (sig : list (list Z)) (L i j : nat),
  i < L -> j < L ->
  length (compute_l_matrix S x sig L) = L * L /\
  mget S L (compute_l_matrix S x sig L) i j =
    fold_left (fun acc e => s_add S acc (s_mul S (s_of_Z S (sig_at sig e (Nat.min i j) * sig_at sig e (Nat.max i j)))
                                                  (nth e x (s_zero S))))
              (seq 0 (length sig)) (s_zero S) /\
  mget S L (compute_l_matrix S x sig L) i j = mget S L (compute_l_matrix S x sig L) j i.
Proof.
  intros C T S x sig L i j Hi Hj.
  exact (conj (l_matrix_length S x sig L) (conj (l_matrix_entry S x sig L i j Hi Hj) (l_matrix_symmetric S x sig L i j Hi Hj))).
Qed.
Print Assumptions C08_entries.

(* non-vacuity: two loops sharing one edge, at binary64 *)
From Coq Require Import Floats.
From MT Require Import Model.F64.
Example C08_example :
  map bits_of (compute_l_matrix (F64 []) [1; 2; 4]%float [[1; 0]; [1; -1]; [0; 1]]%Z 2) =
  map bits_of [3; -2; -2; 6]%float.
Proof. vm_compute. reflexivity. Qed.
