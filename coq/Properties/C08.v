(* Properties/C08.v -- returned U is the first Symanzik polynomial of the graph.
   Statements only.
   PROVED: (every scalar type, any E x L integer signature) the L matrix of the metadata has L*L
   entries, entry (i,j) is the accumulation over the edges, in index order from zero, of
   from_isize(s_ei*s_ej)*x_e, and it is symmetric bit for bit; (any real closed field) it is
   S^T X S, the returned u is its determinant whenever the Feynman parameters are positive and the
   signature columns are linearly independent (a cycle basis; positivity of the Cholesky pivots is
   then proved, Proofs/SPD.v), and
   det(S^T X S) is multiplied by det(Mc)^2 under a change of cycle basis Mc with edge
   reorientations, hence unchanged for unimodular Mc.
   NOT PROVED (named gap): "(det S_I)^2 is 1 if E \ I is a spanning tree and 0 otherwise" for a
   cycle basis S (Binet-Cauchy + total unimodularity), i.e. that det L is the spanning-tree sum;
   validated on every run by spanning-tree enumeration in exact rationals. *)
From Coq Require Import ZArith List.
From mathcomp Require Import all_ssreflect all_algebra.
From MT Require Import Model.Scalar Model.Matrix Model.Sampling
  Proofs.LMatrix Proofs.CholSpec Proofs.LinAlg Proofs.Symanzik Proofs.SymBridge Proofs.SPD.
Set Implicit Arguments.
Unset Strict Implicit.
Import GRing.Theory Num.Theory.
Local Open Scope ring_scope.

Theorem C08_entries : forall (C T : Type) (S : Scalar C T) (x : list T) (sig : list (list Z)) (L i j : nat),
  (i < L)%coq_nat -> (j < L)%coq_nat ->
  List.length (compute_l_matrix S x sig L) = (L * L)%coq_nat /\
  mget S L (compute_l_matrix S x sig L) i j =
    List.fold_left (fun acc e => s_add S acc (s_mul S (s_of_Z S (sig_at sig e (Nat.min i j) * sig_at sig e (Nat.max i j)))
                                                       (List.nth e x (s_zero S))))
                   (List.seq 0 (List.length sig)) (s_zero S) /\
  mget S L (compute_l_matrix S x sig L) i j = mget S L (compute_l_matrix S x sig L) j i.
Proof.
  move=> C T S x sig L i j Hi Hj.
  exact: (conj (l_matrix_length S x sig L) (conj (l_matrix_entry S x sig L i j Hi Hj) (l_matrix_symmetric S x sig L i j Hi Hj))).
Qed.

(* over a real closed field: L = S^T X S *)
Theorem C08_L_matrix : forall (F : rcfType) (nE nL : nat) (x : list F) (sig : list (list Z)),
  List.length sig = nE ->
  mx_of nL (compute_l_matrix (FS F) x sig nL) = Lm (Sm F nE nL sig) (xr nE x).
Proof. move=> F nE nL x sig H; exact: l_matrix_bridge. Qed.

(* the returned u is det(S^T X S) *)
Theorem C08_u_is_det : forall (F : rcfType) (nE p : nat) (x : list F) (sig : list (list Z)),
  List.length sig = nE ->
  let lm := compute_l_matrix (FS F) x sig p.+1 in
  (forall e : 'I_nE, 0 < List.nth e x 0) -> row_free (Sm F nE p.+1 sig)^T ->
  decompose_for_tropical (FS F) p.+1 lm None = Ok (inr (decomp_fields (FS F) p.+1 lm)) /\
  d_determinant (decomp_fields (FS F) p.+1 lm) = \det (Lm (Sm F nE p.+1 sig) (xr nE x)).
Proof.
  move=> F nE p x sig Hsig lm Hxpos Hfree.
  have Hpiv : forall c : 'I_p.+1, 0 < pivot (FS F) p.+1 lm c by exact: (l_matrix_pivots_pos Hsig Hxpos Hfree).
  have EL : mx_of p.+1 lm = Lm (Sm F nE p.+1 sig) (xr nE x) by exact: l_matrix_bridge.
  have Msym : forall i j : 'I_p.+1, mx_of p.+1 lm i j = mx_of p.+1 lm j i.
    by move=> i j; rewrite EL -{1}(Lm_sym (Sm F nE p.+1 sig) (xr nE x)) mxE.
  split; first exact: decompose_ok_of_pivots.
  by have [_ _ _ _ ->] := decomp_fields_correct Msym Hpiv; rewrite EL.
Qed.

(* independence of the cycle basis: S -> Dg S Mc with Dg = diag(+-1), det Mc = +-1 *)
Theorem C08_basis_independence : forall (F : rcfType) (nE nL : nat) (S : 'M[F]_(nE, nL)) (x : 'rV[F]_nE)
    (sg : 'rV[F]_nE) (Mc : 'M[F]_nL),
  (forall e, sg 0 e * sg 0 e = 1) -> (\det Mc = 1 \/ \det Mc = -1) ->
  \det (Lm (diag_mx sg *m S *m Mc) x) = \det (Lm S x).
Proof.
  move=> F nE nL S x sg Mc Hsg Hdet.
  rewrite (@det_routing F nE nL S x sg Hsg Mc).
  by case: Hdet => ->; rewrite ?expr1n ?sqrrN ?expr1n mul1r.
Qed.

Print Assumptions C08_entries.
Print Assumptions C08_L_matrix.
Print Assumptions C08_u_is_det.
Print Assumptions C08_basis_independence.

(* non-vacuity: two loops sharing one edge, at binary64 *)
From Coq Require Import Floats.
From MT Require Import Model.F64.
Example C08_example :
  List.map bits_of (compute_l_matrix (F64 nil) (1 :: 2 :: 4 :: nil)%float
                      ((Zpos xH :: Z0 :: nil) :: (Zpos xH :: Zneg xH :: nil) :: (Z0 :: Zpos xH :: nil) :: nil) 2) =
  List.map bits_of (3 :: -2 :: -2 :: 6 :: nil)%float.
Proof. by vm_compute. Qed.

(* non-vacuity of the independence hypothesis: two loops sharing the middle edge *)
Example C08_row_free_example (F : rcfType) :
  row_free (Sm F 3 2 ((Zpos xH :: Z0 :: nil) :: (Zpos xH :: Zneg xH :: nil) :: (Z0 :: Zpos xH :: nil) :: nil))^T.
Proof.
  apply/row_freeP.
  exists (\matrix_(e, l) (((nat_of_ord e == 0%N) && (nat_of_ord l == 0%N)) || ((nat_of_ord e == 2%N) && (nat_of_ord l == 1%N)))%:R).
  apply/matrixP => i j; rewrite !mxE !big_ord_recl big_ord0 !mxE /=.
  by case: i => [[|[|i]] Hi] //; case: j => [[|[|j]] Hj] //=; rewrite /sig_at /= ?mulr1 ?mulr0 ?mul0r ?addr0 ?add0r ?mul1r.
Qed.
