(* Properties/C01.v -- the Monte Carlo estimator is unbiased.  Statements only.
   The full statement is an identity between an integral over the unit hypercube and an integral
   over R^(D L); the installed analysis libraries (Coquelicot: one-dimensional Riemann integrals;
   no mathcomp-analysis) provide no product measures, Fubini or n-dimensional change of variables,
   so it is NOT proved (DESIGN.md C01).  Proved is the pointwise algebra those classical theorems
   are applied to, which is what every realistic regression of the code breaks:
     T1  the energy identity of the model's momentum map                     (C10_energy)
     T2  the exponents match: omega + D L / 2 = sum of the weights
     T3  weight x proposal density of (lambda, q) x Jacobian of the momentum map x dlambda/dt
         = (I_tr / prod Gamma(nu)) x the Schwinger integrand t^(S-1) exp(-t A(k)),  t = lambda/V
     T5  the probability of a removal order is (prod_j 1/omega(g_j)) / I_tr : it telescopes, and
         these probabilities sum to one over all E! orders                   (with C04_perms)
   Missing, named: Schwinger parametrisation, change of variables/Fubini, the laws produced by
   inverse-CDF and Box-Muller, that statrs' gamma is Gamma, and T4 (the tropical integrand is
   constant in each sector). *)
From Coq Require Import ZArith NArith List Reals.
From MT Require Import Model.Scalar Model.Graph Model.Table
  Proofs.OrdField Proofs.Instances Proofs.TableProofs Proofs.TableField Proofs.RealProofs.
Import ListNotations.

(* T2 : for the degree of divergence that from_graph computes, in any ordered field *)
Theorem C01_exponents : forall (C : Type) (SC : Scalar C C), OrdField SC ->
  forall (g : graph C) (D : nat),
  let tg := tg_of SC g D in
  let all := combine (seq 0 (length (g_edges g))) (g_edges g) in
  s_add SC (tg_dod tg) (half_LD SC (tg_loops tg) D) = weight_sum SC all.
Proof.
  intros C SC OF g D tg all. unfold tg, tg_of. cbn [tg_dod tg_loops].
  pose proof (OF_ring SC OF) as Rth.
  rewrite (f_sub_def SC OF), <- (f_add_assoc SC OF).
  rewrite (f_add_comm SC OF (s_neg SC _)), (Ropp_def Rth), (f_add_0_r SC OF). reflexivity.
Qed.

(* T3 *)
Theorem C01_weight_times_density : forall (Itr Gw PG U V lam Q2 a w : R) (L : nat),
  (0 < Itr -> 0 < Gw -> 0 < PG -> 0 < U -> 0 < V -> 0 < lam ->
  let C := Itr * Gw / PG * Rpower PI (a * INR L) in
  let jac := Rpower (1 / U) a * Rpower (1 / V) w * C in
  let gamma_density := Rpower lam (w - 1) * exp (- lam) / Gw in
  let gauss_density := Rpower (2 * PI) (- (a * INR L)) * exp (- Q2 / 2) in
  let map_jacobian := Rpower (2 * lam / V) (a * INR L) * Rpower U a in
  let A := V * (1 + Q2 / (2 * lam)) in
  let t := lam / V in
  jac * gamma_density * gauss_density * map_jacobian * V =
  Itr / PG * (Rpower t (w + a * INR L - 1) * exp (- (t * A))))%R.
Proof. exact weight_times_density. Qed.

(* T5 *)
Theorem C01_order_probability : forall (C : Type) (SC : Scalar C C) (gam : C -> C), OrdField SC ->
  forall (tg : tgraph C) (D : nat) (t : table C), generate_from_tropical SC gam tg D = BuildOk t ->
  forall (g : sid) (s : list nat), (g < 2 ^ N.of_nat (length (tg_edges tg)))%N -> valid_order g s ->
  prob_chain SC t g s =
  s_div SC (chain_prod SC t g s) (t_j (nth (N.to_nat g) (tb_entries t) (dentry SC))).
Proof. exact (@order_probability). Qed.

Print Assumptions C01_exponents.
Print Assumptions C01_weight_times_density.
Print Assumptions C01_order_probability.

Example C01_example : valid_order 3%N [1; 0]%nat /\ ~ valid_order 3%N [1]%nat.
Proof. split; [repeat split|intros [_ H]; discriminate H]. Qed.
