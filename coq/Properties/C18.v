(* Properties/C18.v -- a serialised sampler restores to one that samples identically.
   Statements only.  Trusted: that serde_json / ciborium preserve the serde data model and
   f64 exactly; that the derived impls list the fields in declaration order is what the
   correspondence compares against [ser_sampler] (field names, order, values). *)
From Coq Require Import ZArith List.
From MT Require Import Model.Scalar Model.Table Model.Sampling Model.Api Model.Serde Proofs.SerdeProofs.
Import ListNotations.

(* any sampler: any table length, any signature, any constants (NaN included: equality is
   structural on the carried values) *)
Theorem C18_roundtrip : forall (C : Type) (s : sampler C), de_sampler (ser_sampler s) = Some s.
Proof. exact (@de_ser_sampler). Qed.
Print Assumptions C18_roundtrip.

(* hence same dimension, degree of divergence, table, and the same answer to every operation *)
Theorem C18_observables : forall (C T : Type) (SC : Scalar C C) (S : Scalar C T)
    (igam_impl : C -> C -> nat -> C -> res C) (c_is_value : C -> bool) (D : nat) (s s' : sampler C),
  de_sampler (ser_sampler s) = Some s' ->
  get_dimension s' = get_dimension s /\ get_dod s' = get_dod s /\ sg_table s' = sg_table s /\
  forall o, answer SC S igam_impl c_is_value D s' o = answer SC S igam_impl c_is_value D s o.
Proof.
  intros C T SC S ig cv D s s' H. rewrite (de_ser_sampler s) in H.
  injection H as <-. exact (conj eq_refl (conj eq_refl (conj eq_refl (fun o => eq_refl)))).
Qed.
Print Assumptions C18_observables.

(* a malformed document (a skipped or renamed field) is rejected, not silently defaulted *)
From Coq Require Import String.
Open Scope string_scope.
Example C18_example_reject :
  @de_sampler nat (SvStruct [("loop_signature", SvSeq []); ("tabel", SvSeq [])]) = None.
Proof. reflexivity. Qed.
