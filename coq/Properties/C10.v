(* Properties/C10.v -- loop momenta: Gaussian map, covariance (V/2 lambda) L^-1, centre -L^-1 u.
   Statements only (MathComp; F any real closed field; the model's functions instantiated at
   the dictionary FS F; nL = p+1 loops, nE edges, nD dimensions, all arbitrary).
   Assumed of the input: positive Feynman parameters and linearly independent signature columns
   (a cycle basis); that the pivots of the model's Cholesky loop on L are then positive is proved
   (Proofs/SPD.v). *)
From Coq Require Import ZArith List.
From mathcomp Require Import all_ssreflect all_algebra.
From MT Require Import Model.Scalar Model.Vector Model.Matrix Model.Sampling
  Proofs.CholSpec Proofs.LinAlg Proofs.Symanzik Proofs.SymBridge Proofs.SPD.
Set Implicit Arguments.
Unset Strict Implicit.
Import GRing.Theory Num.Theory.
Local Open Scope ring_scope.

Section C10.
Variable F : rcfType.
Variables (nE p nD : nat).
Let nL := p.+1.
Variables (x : list F) (sig : list (list Z)) (shifts : list (list F)) (masses : list F).
Variables (qs : list (list F)) (lam : F).
Hypothesis Hsig : List.length sig = nE.
Hypothesis Hx : List.length x = nE.
Hypothesis Hm : List.length masses = nE.
Hypothesis Hsh : List.length shifts = nE.
Hypothesis Hshift : forall e, (e < nE)%N -> List.length (List.nth e shifts nil) = nD.
Hypothesis Hqs : List.length qs = nL.
Hypothesis Hq : forall l, (l < nL)%N -> List.length (List.nth l qs nil) = nD.

Let lm := compute_l_matrix (FS F) x sig nL.
Hypothesis Hxpos : forall e : 'I_nE, 0 < List.nth e x 0.
Hypothesis Hfree : row_free (Sm F nE nL sig)^T.
Let dc := decomp_fields (FS F) nL lm.
Let us := compute_u_vectors (FS F) nD x sig nL shifts.
Let vv := compute_v_polynomial (FS F) x us nL (d_inverse dc) shifts masses.
Let ks := compute_loop_momenta (FS F) nD vv lam nL (d_q_transposed_inverse dc) qs (d_inverse dc) us.
Hypothesis Hpos : 0 <= vv / lam / 2%:R.

(* the edge momenta q_e = sum_l S_el k_l + p_e built from the model's loop momenta *)
Let S := Sm F nE nL sig.
Let Km : 'M[F]_(nL, nD) := \matrix_(l, d) List.nth d (List.nth l ks nil) 0.

(* sum_e x_e (|q_e|^2 + m_e^2) = v (1 + |q|^2 / (2 lambda)) : a transposed factor, a swapped
   index or a wrong sign of the shift each falsify this for L >= 2 *)
Theorem C10_energy :
  \sum_(e < nE) List.nth e x 0 *
      (\sum_(d < nD) ((S *m Km + Pm nE nD shifts) e d) ^+ 2 + (List.nth e masses 0) ^+ 2)
  = vv + (vv / lam / 2%:R) * (\sum_(l < nL) \sum_(d < nD) (List.nth d (List.nth l qs nil) 0) ^+ 2).
Proof.
  have Hpiv : forall c : 'I_nL, 0 < pivot (FS F) nL lm c by exact: (l_matrix_pivots_pos Hsig Hxpos Hfree).
  have H := model_energy_identity Hsig Hx Hm Hsh Hshift Hqs Hq Hpiv Hpos.
  rewrite -H; apply: eq_bigr => e _; by rewrite !mxE.
Qed.

End C10.

(* the map itself, with its index pattern: k = sqrt(v/lambda/2) Q^-T q - L^-1 u, entry by entry *)
Theorem C10_map : forall (F : rcfType) (nL nD : nat) (us : list (list F)) (linv : list F),
  (forall l, (l < nL)%N -> List.length (List.nth l us nil) = nD) ->
  forall (qs : list (list F)) (qtinv : list F),
  List.length qs = nL -> List.length us = nL ->
  (forall l, (l < nL)%N -> List.length (List.nth l qs nil) = nD) ->
  forall (v lam : F) (l : 'I_nL) (d : 'I_nD),
  List.nth d (List.nth l (compute_loop_momenta (FS F) nD v lam nL qtinv qs linv us) nil) 0 =
  (Num.sqrt (v / lam / 2%:R) *: (QTI nL qtinv *m Qv nL nD qs) - INV nL linv *m Uv nL nD us) l d.
Proof. move=> F nL nD us linv Hus qs qtinv H1 H2 H3 v lam l d; exact: loop_momenta_bridge. Qed.

(* the metadata field shift is L^-1 u *)
Theorem C10_shift : forall (F : rcfType) (nL nD : nat) (us : list (list F)) (linv : list F),
  List.length us = nL -> (forall l, (l < nL)%N -> List.length (List.nth l us nil) = nD) ->
  forall (l : 'I_nL) (d : 'I_nD),
  List.nth d (List.nth l (compute_only_shift (FS F) nD nL linv us) nil) 0 = (INV nL linv *m Uv nL nD us) l d.
Proof. move=> F nL nD us linv H1 H2 l d; exact: shift_bridge. Qed.

Print Assumptions C10_energy.
Print Assumptions C10_map.
Print Assumptions C10_shift.
