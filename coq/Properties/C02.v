(* Properties/C02.v -- sample weights are bounded by graph- and kinematics-only constants.
   Statements only.
   PROVED: the arithmetic of the bounds over R -- a sum of non-negative monomials lies between its
   largest monomial and (number of monomials) x it; a polynomial with coefficients in [c_min, ..]
   summing to C_sum lies between c_min x and C_sum x its largest monomial; and from
   U_tr <= U <= N_T U_tr, (c_min/N_T) V_tr <= V <= C_sum V_tr the interval
   [N_T^(-D/2) C_sum^(-dod), (N_T/c_min)^dod] for (U_tr/U)^(D/2) (V_tr/V)^dod.
   NOT PROVED (named gaps, the same as in C07/C08/C09): that U is the spanning-tree sum with
   N_T monomials of coefficient one, that u_trop is its largest monomial, that V U is the
   second Symanzik polynomial and v_trop u_trop its largest monomial for generic kinematics.
   With those identifications the first two lemmas give the two-sided bounds on U and V.
   The check evaluates the bounds themselves with exact N_T, c_min, C_sum on every run. *)
From Coq Require Import Reals List Lra.
From MT Require Import Proofs.RealProofs Proofs.Bounds.
Import ListNotations.
Local Open Scope R_scope.

Theorem C02_max_sum : forall (l : list R) (m : R),
  (forall y, In y l -> 0 <= y) -> In m l -> (forall y, In y l -> y <= m) ->
  m <= rsum l <= INR (length l) * m.
Proof. intros l m H1 H2 H3. exact (conj (max_le_sum l m H1 H2) (sum_le_card_max l m H3)). Qed.

Theorem C02_coefficients : forall (l : list (R * R)) (cmin M : R),
  (forall c m, In (c, m) l -> cmin <= c /\ 0 <= m <= M) -> 0 <= cmin -> (exists c, In (c, M) l) ->
  cmin * M <= wsum l <= rsum (map fst l) * M.
Proof.
  intros l cmin M H Hc Hex. split.
  - apply (wsum_lower l cmin M); [intros c m Hin; destruct (H c m Hin) as [H1 [H2 _]]; split; assumption|exact Hc|exact Hex].
  - apply wsum_upper. intros c m Hin. destruct (H c m Hin) as [H1 H2]. split; [lra|exact H2].
Qed.

Theorem C02_ratio : forall (U V Ut Vt NT cmin Csum a w : R),
  0 < Ut -> 0 < Vt -> 0 < cmin -> 0 < Csum -> 1 <= NT -> 0 <= a -> 0 <= w ->
  Ut <= U <= NT * Ut ->
  cmin / NT * Vt <= V <= Csum * Vt ->
  Rpower NT (- a) * Rpower Csum (- w) <= Rpower (Ut / U) a * Rpower (Vt / V) w <= Rpower (NT / cmin) w.
Proof. exact ratio_interval. Qed.

Print Assumptions C02_max_sum.
Print Assumptions C02_coefficients.
Print Assumptions C02_ratio.

Example C02_example : 3 <= rsum [1; 3; 2] <= INR 3 * 3.
Proof. simpl. lra. Qed.
