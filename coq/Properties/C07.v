(* Properties/C07.v -- Feynman parameters follow the sector formula and the tropical
   normalisation.  Statements only.
   PROVED: the removal order is a permutation of the edges; the pre-rescaling parameter of
   the k-th removed edge is kappa_k with kappa_1 = 1, kappa_{k+1} = kappa_k * xi_k^(1/omega(g_k))
   (xi_k = coordinate 2k-1, g_k = graph after k removals); u_trop / v_trop are the bookkeeping
   of [spec_run] (product of the parameters at which the loop number drops / the parameter at
   which the spanning flag is lost); the rescaling is common to all parameters and, over R,
   makes U_tr^(D/2) V_tr^dod = 1.
   NOT PROVED (named gap, DESIGN.md C07): that this u_trop is the largest monomial of U
   (greedy/matroid argument) and v_trop*u_trop the largest monomial of F for generic kinematics
   (all-minors matrix-tree theorem).  Both are validated on every run by brute force over
   spanning trees and 2-forests in exact rationals. *)
From Coq Require Import ZArith NArith List Reals.
From MT Require Import Model.Scalar Model.Graph Model.Table Model.Matrix Model.Sampling
  Proofs.Instances Proofs.SectorLoop Proofs.RealModel.
Import ListNotations.
Local Open Scope nat_scope.

Section C07.
Context {C T : Type} (SC : Scalar C C) (S : Scalar C T).
Variables (t : table C) (d z : T).
Notation E := (nedges t).

(* the loop as a whole *)
Theorem C07_sector : forall (pt : list T) (sec : sector_result T),
  permatuhedral_sampling SC S t (mkRng pt 0) = Ok sec -> 1 <= E ->
  NoDup (sec_order sec) /\ length (sec_order sec) = E /\ (forall e, In e (sec_order sec) <-> e < E) /\
  let fin := spec_run SC S t d pt 0 (init_state S t pt) (sec_order sec) in
  sec_x_pre sec = st_x fin /\ sec_utrop_pre sec = st_utrop fin /\ sec_vtrop_pre sec = st_vtrop fin /\
  sec_x sec = map (fun x => s_mul S x (sec_scaling sec)) (sec_x_pre sec).
Proof.
  intros pt sec H HE.
  destruct (sampling_anatomy SC S t d pt sec H HE) as [_ [_ [H1 [H2 [H3 [_ H4]]]]]].
  exact (conj H1 (conj H2 (conj H3 H4))).
Qed.

(* the sector formula: the k-th removed edge carries kappa_k *)
Theorem C07_kappa : forall (pt : list T) (sec : sector_result T),
  permatuhedral_sampling SC S t (mkRng pt 0) = Ok sec -> 1 <= E ->
  forall k, k < E ->
    nth (nth k (sec_order sec) 0) (sec_x_pre sec) z =
    nth k (kappa_seq SC S t d pt 0 (N.ones (N.of_nat E)) (s_one S) (sec_order sec)) z.
Proof.
  intros pt sec H HE k Hk.
  destruct (sampling_anatomy SC S t d pt sec H HE) as [_ [_ [Hnd [Hlen [Hiff [_ Hfin]]]]]].
  cbv zeta in Hfin. destruct Hfin as [Hx _]. rewrite Hx.
  destruct (spec_run_x SC S t d pt 0 (init_state S t pt) (sec_order sec) z Hnd) as [_ [Hkk _]].
  - intros e He. unfold init_state. cbn [st_x]. rewrite repeat_length. apply Hiff, He.
  - rewrite <- Hlen in Hk. exact (Hkk k Hk).
Qed.

End C07.

(* over R: the rescaled tropical polynomials are normalised *)
Theorem C07_rescale : forall (t : table R) (r : rng R) (sec : sector_result R),
  permatuhedral_sampling RS RS t r = Ok sec ->
  let u := sec_utrop_pre sec in
  let v := sec_vtrop_pre sec in
  let L := t_loop (last (tb_entries t) (dentry RS)) in
  let a := (INR (tb_dim t) / 2)%R in
  let w := tg_dod (tb_graph t) in
  (0 < u)%R -> (0 < v)%R -> (a * INR L + w <> 0)%R ->
  (Rpower (sec_scaling sec ^ L * u) a * Rpower (sec_scaling sec * v) w = 1)%R.
Proof. exact model_rescaling_normalises. Qed.

Print Assumptions C07_sector.
Print Assumptions C07_kappa.
Print Assumptions C07_rescale.

(* non-vacuity: the recurrence on a concrete order *)
From MT Require Import Model.F64.
From Coq Require Import Floats.
Example C07_example :
  length (kappa_seq (F64 []) (F64 []) (mkTable [] 3 (mkTG 0%float [] 0 [] 0) 0%float) 0%float
            [0.5; 0.25; 0.125]%float 0%nat 7%N 1%float [2; 0; 1]%nat) = 3%nat.
Proof. reflexivity. Qed.
