(* Properties/C14.v -- each hypercube coordinate is consumed exactly once, in one statistical
   role.  Statements only.
   The model's RNG can only be read sequentially ([rng_next] reads position [counter] and
   increments it), so "the counter ends at n" means "positions 0..n-1 were each read exactly
   once, in order".  "Every coordinate influences the result" in the analytic sense is shown per
   execution by the dependency-tracking correspondence, not here (C14_used is the read count). *)
From Coq Require Import ZArith List.
From MT Require Import Model.Scalar Model.Table Model.Matrix Model.Sampling
  Proofs.GaussProofs Proofs.SectorLoop Proofs.SampleAnatomy.
Import ListNotations.
Local Open Scope nat_scope.

Section C14.
Context {C T : Type} (SC : Scalar C C) (S : Scalar C T).
Variable igam_impl : C -> C -> nat -> C -> res C.
Variable c_is_value : C -> bool.
Variable d : T.

(* A successful sample read exactly 2E-1 + DL + (DL mod 2) coordinates, all of which exist:
   2E-2 by sector sampling, then lambda from coordinate 2E-2 (and the degree of divergence,
   nothing else), then the Gaussian vectors from coordinate 2E-1 on. *)
Theorem C14_count_and_roles : forall (t : table C) (D : nat) (pt : list T) (sig : list (list Z))
    (ed : list (option T * list T)) (st : settings C) (r : sample_result T),
  sample SC S igam_impl c_is_value t D pt sig ed st = Ok (inr r) ->
  let E := nedges t in
  let L := tg_loops (tb_graph t) in
  let reads := D * L + Nat.modulo (D * L) 2 in
  exists sec lam qs,
    permatuhedral_sampling SC S t (mkRng pt 0) = Ok sec /\ sec_rng sec = mkRng pt (2 * E - 2) /\
    inverse_gamma_lr S igam_impl c_is_value (s_of_c S (tg_dod (tb_graph t))) (nth (2 * E - 2) pt d) 50
                     (s_of_c S (ofnat SC 5)) = Ok (Some lam) /\
    sample_q_vectors S (mkRng pt (2 * E - 1)) D L = Ok (qs, mkRng pt (2 * E - 1 + reads)) /\
    sr_reads r = 2 * E - 1 + reads /\ 2 * E - 1 + reads <= length pt /\
    sr_sector r = sec /\
    (forall md, sr_meta r = Some md -> md_q md = qs /\ md_lambda md = lam).
Proof.
  intros t D pt sig ed st r H.
  destruct (sample_anatomy SC S igam_impl c_is_value d t D pt sig ed st r H)
    as [_ [sec [dc [lam [qs [H1 [H2 [_ [H4 [H5 [H6 [H7 [H8 Hrest]]]]]]]]]]]]].
  cbv zeta in Hrest. destruct Hrest as [_ [_ [_ [_ [_ [_ H15]]]]]].
  exists sec, lam, qs.
  exact (conj H1 (conj H2 (conj H4 (conj H5 (conj H7 (conj H6 (conj H8
        (fun md Hm => match H15 md Hm with conj a (conj b _) => conj a b end)))))))).
Qed.

(* Feynman parameters, removal order and tropical values depend only on the first 2E-2
   coordinates (through values AND through the comparisons that select edges) *)
Theorem C14_sector_noninterference : forall (t : table C) (pt1 pt2 : list T) (sec1 sec2 : sector_result T),
  1 <= nedges t ->
  (forall i, i < 2 * nedges t - 2 -> nth i pt1 d = nth i pt2 d) ->
  permatuhedral_sampling SC S t (mkRng pt1 0) = Ok sec1 ->
  permatuhedral_sampling SC S t (mkRng pt2 0) = Ok sec2 ->
  sec_order sec2 = sec_order sec1 /\ sec_x_pre sec2 = sec_x_pre sec1 /\ sec_x sec2 = sec_x sec1 /\
  sec_utrop_pre sec2 = sec_utrop_pre sec1 /\ sec_vtrop_pre sec2 = sec_vtrop_pre sec1 /\
  sec_scaling sec2 = sec_scaling sec1 /\ r_counter (sec_rng sec2) = r_counter (sec_rng sec1).
Proof. exact (fun t => sampling_ignores_tail SC S t d). Qed.

(* each Gaussian component depends only on its own coordinate pair *)
Theorem C14_gauss_noninterference : forall (pt : list T) (off D L : nat),
  let nv := D * L in
  let reads := nv + Nat.modulo nv 2 in
  off + reads <= length pt ->
  exists qs,
    sample_q_vectors S (mkRng pt off) D L = Ok (qs, mkRng pt (off + reads)) /\
    length qs = L /\
    forall lv i, lv < L -> i < D ->
      let n := lv * D + i in
      nth i (nth lv qs []) d =
      if Nat.even n then fst (box_muller S (nth (off + 2 * (n / 2)) pt d) (nth (off + 2 * (n / 2) + 1) pt d))
      else snd (box_muller S (nth (off + 2 * (n / 2)) pt d) (nth (off + 2 * (n / 2) + 1) pt d)).
Proof. intros pt off D L. exact (q_vectors_layout S pt off D L d). Qed.

End C14.
Print Assumptions C14_count_and_roles.
Print Assumptions C14_sector_noninterference.
Print Assumptions C14_gauss_noninterference.

(* non-vacuity: the hypotheses are met by a concrete run at binary64 (massive bubble, D = 3):
   2E-2 = 2 coordinates are read by sector sampling *)
From Coq Require Import Floats.
From MT Require Import Model.F64 Model.Graph Model.Render.
Example C14_example :
  render_sector_stage [mkO 6%N (bits_of 1%float) 0%Z 1%float; mkO 6%N (bits_of 0x1p-1%float) 0%Z 0x1.c5bf891b4ef6bp+0%float;
                       mkO 5%N (bits_of f64_pi) (bits_of 0x1.8p+0%float) 0x1.6457a1d4a7cbfp+2%float]
     [(0%N, 1%N, true, 1%float); (0%N, 1%N, true, 1%float)] [0%N; 1%N] 3
     [0.25; 0.5; 0.75; 0.125; 0.375; 0.625; 0.875]%float <> [3%Z; 20%Z].
Proof. vm_compute. discriminate. Qed.
