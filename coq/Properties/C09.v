(* Properties/C09.v -- returned V times U is the second Symanzik polynomial F.
   Statements only (MathComp).
   PROVED: the model's u-vectors are S^T X P and its V is the quadratic form
   sum_e x_e (m_e^2+|p_e|^2) - tr(u^T L^-1 u) whenever the inverse it is given is symmetric (the
   code reads the upper triangle and doubles it); V, and U = det L up to det(Mc)^2, are invariant
   under changes of cycle basis, edge reorientation and constant offsets of the loop momenta.
   NOT PROVED (named gap): the expansion of V*U over spanning 2-forests (all-minors matrix-tree
   theorem + momentum conservation); validated on every run by 2-forest enumeration in exact
   rationals with momentum-conserving kinematics. *)
From Coq Require Import ZArith List.
From mathcomp Require Import all_ssreflect all_algebra.
From MT Require Import Model.Scalar Model.Vector Model.Matrix Model.Sampling
  Proofs.LinAlg Proofs.Symanzik Proofs.SymBridge.
Set Implicit Arguments.
Unset Strict Implicit.
Import GRing.Theory Num.Theory.
Local Open Scope ring_scope.

(* the u vectors: u_l = sum_e S_el x_e p_e *)
Theorem C09_u_vectors : forall (F : rcfType) (nE nL nD : nat) (x : list F) (sig : list (list Z)) (shifts : list (list F)),
  List.length sig = nE -> (forall e, (e < nE)%N -> List.length (List.nth e shifts nil) = nD) ->
  forall (l : 'I_nL) (d : 'I_nD),
  List.nth d (List.nth l (compute_u_vectors (FS F) nD x sig nL shifts) nil) 0 =
  Um (Sm F nE nL sig) (xr nE x) (Pm nE nD shifts) l d.
Proof. move=> F nE nL nD x sig shifts H1 H2 l d; exact: u_vectors_bridge. Qed.

(* V as a quadratic form *)
Theorem C09_quadratic : forall (F : rcfType) (nE nL nD : nat) (x : list F) (shifts : list (list F)) (masses : list F),
  (forall e, (e < nE)%N -> List.length (List.nth e shifts nil) = nD) ->
  forall (us : list (list F)) (linv : list F),
  List.length x = nE -> List.length masses = nE -> List.length shifts = nE ->
  (forall l, (l < nL)%N -> List.length (List.nth l us nil) = nD) ->
  (INV nL linv)^T = INV nL linv ->
  compute_v_polynomial (FS F) x us nL linv shifts masses =
  base (xr nE x) (m2r nE masses) (Pm nE nD shifts) - \tr ((Uv nL nD us)^T *m INV nL linv *m Uv nL nD us).
Proof. move=> F nE nL nD x shifts masses H1 us linv H2 H3 H4 H5 H6; exact: v_polynomial_bridge. Qed.

(* routing independence, at the level of the matrices the model computes *)
Theorem C09_routing : forall (F : rcfType) (nE nL nD : nat) (S : 'M[F]_(nE, nL)) (x m2 : 'rV[F]_nE) (P : 'M[F]_(nE, nD)),
  Lm S x \in unitmx ->
  (* constant offsets of the loop momenta *)
  (forall a : 'M[F]_(nL, nD), Vpoly S x m2 (P + S *m a) = Vpoly S x m2 P) /\
  (* cycle basis Mc and edge orientations sg = +-1 *)
  (forall (sg : 'rV[F]_nE) (Mc : 'M[F]_nL), (forall e, sg 0 e * sg 0 e = 1) -> Mc \in unitmx ->
     Vpoly (diag_mx sg *m S *m Mc) x m2 (diag_mx sg *m P) = Vpoly S x m2 P /\
     \det (Lm (diag_mx sg *m S *m Mc) x) = (\det Mc) ^+ 2 * \det (Lm S x)).
Proof.
  move=> F nE nL nD S x m2 P HL; split; first exact: offset_invariance.
  move=> sg Mc Hsg HMc; split; [exact: V_routing | exact: det_routing].
Qed.

Print Assumptions C09_u_vectors.
Print Assumptions C09_quadratic.
Print Assumptions C09_routing.
