(* Properties/C15.v -- the matrix routine returns the true determinant, inverse and Cholesky
   factors.  Statements only (MathComp; F ranges over all real closed fields, the dimension
   over all n = p+1: the property's range 1..8 is a sub-case; SmallVec's heap spill above
   6x6 is invisible to the model and exercised by the correspondence).
   HYPOTHESIS kept visible: the pivots d_c = M_cc - sum_{k<c} q_ck^2 met by the model's
   Cholesky loop are positive.  That symmetric positive-definite matrices have positive pivots
   (Schur-complement induction) is NOT proved here; the check decides positive definiteness
   exactly in rationals on every generated case.  Rounding: the accuracy clause "to a relative
   accuracy proportional to the condition number" is covered by the correspondence tolerance
   (1e-13*n*kappa with kappa exact), not by these exact-field theorems. *)
From Coq Require Import ZArith List.
From mathcomp Require Import all_ssreflect all_algebra.
From MT Require Import Model.Scalar Model.Matrix Proofs.CholSpec Proofs.LinAlg.
Set Implicit Arguments.
Unset Strict Implicit.
Import GRing.Theory Num.Theory.
Local Open Scope ring_scope.

Section C15.
Variable F : rcfType.
Variables (p : nat) (m : list F).
Let n := p.+1.
Let M := mx_of n m.
Hypothesis Msym : forall i j : 'I_n, M i j = M j i.
Hypothesis Hpiv : forall c : 'I_n, 0 < pivot (FS F) n m c.

(* the Cholesky factor of the model: lower triangular, positive diagonal, Q Q^T = M *)
Theorem C15_chol :
  is_trig_mx (Qmx n m) /\ (forall c : 'I_n, 0 < Qmx n m c c) /\ Qmx n m *m (Qmx n m)^T = M.
Proof.
  split; first exact: Q_trig. split; last exact: cholesky_correct.
  by move=> c; rewrite mxE; exact: (q_diag_pos Hpiv).
Qed.

(* the routine returns Ok, and the four results are: q_transposed = Q^T (so its transpose
   times itself reproduces M), q_transposed_inverse its inverse, inverse the two-sided
   inverse of M (and symmetric), determinant the determinant of M *)
Theorem C15_results :
  decompose_for_tropical (FS F) n m None = Ok (inr (decomp_fields (FS F) n m)) /\
  let r := decomp_fields (FS F) n m in
  [/\ mx_of n (d_q_transposed r) = (Qmx n m)^T,
      mx_of n (d_q_transposed_inverse r) *m (Qmx n m)^T = 1%:M,
      mx_of n (d_inverse r) *m M = 1%:M /\ M *m mx_of n (d_inverse r) = 1%:M,
      (mx_of n (d_inverse r))^T = mx_of n (d_inverse r) &
      d_determinant r = \det M].
Proof. split; [exact: decompose_ok_of_pivots | exact: decomp_fields_correct]. Qed.

End C15.

(* the nilpotent series the routine relies on: for N strictly lower triangular of size p+1,
   (sum_{k <= p} (-N)^k) (1 + N) = 1 *)
Theorem C15_nilpotent : forall (F : rcfType) (p : nat) (N : 'M[F]_p.+1),
  (forall i j : 'I_p.+1, (i <= j)%N -> N i j = 0) ->
  (\sum_(k < p.+1) (- N) ^+ k) * (1 + N) = 1.
Proof. exact: neumann_inverse. Qed.

Print Assumptions C15_chol.
Print Assumptions C15_results.
Print Assumptions C15_nilpotent.

(* non-vacuity: the hypotheses hold for [[4,2],[2,3]] over the exact rationals-as-reals of any
   rcfType: pivots 4 and 3 - (2/2)^2 = 2 *)
Example C15_example (F : rcfType) :
  pivot (FS F) 2 [:: 4%:R; 2%:R; 2%:R; 3%:R] 0 = 4%:R :> F.
Proof. by rewrite /pivot /=. Qed.
