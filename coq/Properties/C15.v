(* Properties/C15.v -- the matrix routine returns the true determinant, inverse and Cholesky
   factors.  Statements only (MathComp; F ranges over all real closed fields, the dimension
   over all n = p+1: the property's range 1..8 is a sub-case; SmallVec's heap spill above
   6x6 is invisible to the model and exercised by the correspondence).
   The matrix is assumed symmetric and positive definite (x M x^T > 0 for every non-zero row
   vector x); that the pivots d_c = M_cc - sum_{k<c} q_ck^2 met by the model's Cholesky loop
   are then positive is PROVED (C15_pivots, Proofs/SPD.v: induction on the column with the
   vector e_c Qc^-1), it is no longer a hypothesis.  Rounding: the accuracy clause "to a
   relative accuracy proportional to the condition number" is covered by the correspondence
   tolerance (1e-13*n*kappa with kappa exact), not by these exact-field theorems. *)
From Coq Require Import ZArith List.
From mathcomp Require Import all_ssreflect all_algebra.
From mathcomp Require Import ring.
From MT Require Import Model.Scalar Model.Matrix Proofs.CholSpec Proofs.LinAlg Proofs.SPD.
Set Implicit Arguments.
Unset Strict Implicit.
Import Order.TTheory GRing.Theory Num.Theory.
Local Open Scope ring_scope.

Section C15.
Variable F : rcfType.
Variables (p : nat) (m : list F).
Let n := p.+1.
Let M := mx_of n m.
Hypothesis Msym : forall i j : 'I_n, M i j = M j i.
Hypothesis Mpos : forall x : 'rV[F]_n, x != 0 -> 0 < (x *m M *m x^T) 0 0.

(* positive definiteness makes every pivot of the model's Cholesky loop positive *)
Theorem C15_pivots : forall c : 'I_n, 0 < pivot (FS F) n m c.
Proof. exact: (spd_pivots_pos Msym Mpos). Qed.

(* the Cholesky factor of the model: lower triangular, positive diagonal, Q Q^T = M *)
Theorem C15_chol :
  is_trig_mx (Qmx n m) /\ (forall c : 'I_n, 0 < Qmx n m c c) /\ Qmx n m *m (Qmx n m)^T = M.
Proof.
  split; first exact: Q_trig. split; last exact: (cholesky_correct Msym C15_pivots).
  by move=> c; rewrite mxE; exact: (q_diag_pos C15_pivots).
Qed.

(* the routine returns Ok, and the four results are: q_transposed = Q^T (so its transpose
   times itself reproduces M), q_transposed_inverse its inverse, inverse the two-sided
   inverse of M (and symmetric), determinant the determinant of M *)
Theorem C15_results :
  decompose_for_tropical (FS F) n m None = Ok (inr (decomp_fields (FS F) n m)) /\
  let r := decomp_fields (FS F) n m in
  [/\ mx_of n (d_q_transposed r) = (Qmx n m)^T,
      mx_of n (d_q_transposed_inverse r) *m (Qmx n m)^T = 1%:M,
      mx_of n (d_inverse r) *m M = 1%:M /\ M *m mx_of n (d_inverse r) = 1%:M,
      (mx_of n (d_inverse r))^T = mx_of n (d_inverse r) &
      d_determinant r = \det M].
Proof. split; [exact: (decompose_ok_of_pivots C15_pivots) | exact: (decomp_fields_correct Msym C15_pivots)]. Qed.

End C15.

(* the nilpotent series the routine relies on: for N strictly lower triangular of size p+1,
   (sum_{k <= p} (-N)^k) (1 + N) = 1 *)
Theorem C15_nilpotent : forall (F : rcfType) (p : nat) (N : 'M[F]_p.+1),
  (forall i j : 'I_p.+1, (i <= j)%N -> N i j = 0) ->
  (\sum_(k < p.+1) (- N) ^+ k) * (1 + N) = 1.
Proof. exact: neumann_inverse. Qed.

Print Assumptions C15_pivots.
Print Assumptions C15_chol.
Print Assumptions C15_results.
Print Assumptions C15_nilpotent.

(* non-vacuity: [[4,2],[2,3]] over any real closed field is symmetric and positive definite
   (x M x^T = (2a+b)^2 + 2b^2), so C15_pivots, C15_chol and C15_results apply to it *)
Example C15_spd_example (F : rcfType) :
  let m : list F := [:: 4%:R; 2%:R; 2%:R; 3%:R] in
  (forall i j : 'I_2, mx_of 2 m i j = mx_of 2 m j i) /\
  (forall x : 'rV[F]_2, x != 0 -> 0 < (x *m mx_of 2 m *m x^T) 0 0).
Proof.
  move=> m; split.
  - by move=> [[|[|i]] Hi] [[|[|j]] Hj] //; rewrite !mxE.
  - move=> x Hx.
    have E : (x *m mx_of 2 m *m x^T) 0 0 = (2%:R * x 0 0 + x 0 1) ^+ 2 + 2%:R * (x 0 1) ^+ 2.
      rewrite !mxE !big_ord_recl !big_ord0 !mxE /= !big_ord_recl !big_ord0 !mxE /=.
      rewrite /mget /=. 
      have -> : (lift ord0 ord0 : 'I_2) = 1 by apply/ord_inj.
      change (x 0 ord0) with (x 0 0). move: (x 0 0) (x 0 1) => a b. ring.
    rewrite E.
    have H0 : 0 <= (2%:R * x 0 0 + x 0 1) ^+ 2 by exact: sqr_ge0.
    have H1 : 0 <= 2%:R * x 0 1 ^+ 2 by rewrite mulr_ge0 ?sqr_ge0 // ler0n.
    case B: (x 0 1 == 0).
    + rewrite (eqP B) expr0n /= mulr0 addr0 addr0.
      have Hx0 : x 0 0 != 0.
        apply: contraNneq Hx => A0; apply/eqP/rowP => k; rewrite [RHS]mxE.
        case: k => [[|[|k]] Hk] //.
        * by have -> : Ordinal Hk = 0 :> 'I_2 by apply/ord_inj.
        * have -> : Ordinal Hk = 1 :> 'I_2 by apply/ord_inj.
          exact: (eqP B).
      by rewrite lt_def sqr_ge0 sqrf_eq0 mulf_neq0 // pnatr_eq0.
    + apply: ltr_paddl => //. by rewrite mulr_gt0 ?ltr0n // lt_def sqr_ge0 sqrf_eq0 B.
Qed.
