(* Properties/C04.v -- J-function obeys its recursion exactly; I_tr and the cached
   normalisation follow.  Statements only, closed by [exact]. *)
From Coq Require Import ZArith NArith List Permutation Factorial QArith Qcanon.
From MT Require Import Model.Scalar Model.Graph Model.Table
  Proofs.OrdField Proofs.Instances Proofs.TableProofs Proofs.TableField Proofs.Orderings.
Import ListNotations.
Local Open Scope nat_scope.

Section C04.
Context {C : Type} (SC : Scalar C C) (gam : C -> C).
Variables (g : graph C) (D : nat) (t : table C).
Hypothesis Hsize : length (g_edges g) <= 64.
Hypothesis Hb : build_sampler SC gam g D = BuildOk t.

Let E := length (g_edges g).
Let J (s : sid) : C := t_j (nth (N.to_nat s) (tb_entries t) (dentry SC)).
Let om (s : sid) : C := t_dod (nth (N.to_nat s) (tb_entries t) (dentry SC)).

(* For EVERY scalar type (binary64 included): J(empty)=1 and J(s) is the sum, in edge
   order, of J(s\e)/omega(s\e) -- exactly, operation for operation. *)
Theorem C04_rec :
  J 0%N = s_one SC /\
  forall s, (0 < s)%N -> (s < 2 ^ N.of_nat E)%N ->
    J s = csum SC (map (fun e => s_div SC (J (pop_edge s e)) (om (pop_edge s e))) (edges_of E s)).
Proof.
  rewrite (build_sampler_eq SC gam g D Hsize) in Hb.
  exact (table_J_recursion SC gam (tg_of SC g D) D t Hb).
Qed.

(* the stored normalisation: J(full) * Gamma(dod)/prod Gamma(weight) * pi^(D L/2) *)
Theorem C04_factor :
  tb_factor t =
    s_mul SC (s_mul SC (J (N.ones (N.of_nat E)))
               (s_div SC (gam (tg_dod (tg_of SC g D)))
                         (cprod SC (map (fun e => gam (e_weight e)) (g_edges g)))))
             (s_powf SC (s_pi SC) (s_div SC (ofnat SC (D * tg_loops (tg_of SC g D))) (ofnat SC 2))).
Proof.
  rewrite (build_sampler_eq SC gam g D Hsize) in Hb.
  exact (table_factor SC gam (tg_of SC g D) D t Hb).
Qed.

(* In an ordered field: the edge probabilities sum to one ... *)
Hypothesis OF : OrdField SC.

Theorem C04_probs : forall s, (0 < s)%N -> (s < 2 ^ N.of_nat E)%N ->
  fsum_from SC (s_zero SC)
    (map (fun e => s_div SC (s_div SC (J (pop_edge s e)) (J s)) (om (pop_edge s e))) (edges_of E s))
  = s_one SC.
Proof.
  rewrite (build_sampler_eq SC gam g D Hsize) in Hb.
  exact (probs_sum_one SC gam OF (tg_of SC g D) D t Hb).
Qed.

(* ... and J(full) is the sum over all E! edge orderings of the product of inverse
   generalised degrees of divergence of the successive remainders. *)
Theorem C04_perms :
  let full := N.ones (N.of_nat E) in
  let all := seq 0 E in
  let perms := orderings E all in
  (NoDup perms /\ (forall s, In s perms <-> Permutation s all) /\ length perms = fact E) /\
  J full = fsum_from SC (s_zero SC)
             (map (chain_prod SC t full) perms).
Proof.
  rewrite (build_sampler_eq SC gam g D Hsize) in Hb.
  exact (J_full_orderings SC gam OF (tg_of SC g D) D t Hb).
Qed.

End C04.

Check @C04_rec. Check @C04_factor. Check @C04_probs. Check @C04_perms.
Print Assumptions C04_rec.
Print Assumptions C04_factor.
Print Assumptions C04_probs.
Print Assumptions C04_perms.

(* Non-vacuity: the hypotheses hold for a concrete accepted graph over the exact
   rationals (triangle, D = 3, weights 1, 3/2, 5/4, one massive edge), and the
   value of J(full) is the one the recursion gives. *)
Definition ex_graph : graph Qc :=
  mkGraph [mkEdge 0%N 1%N (Q2Qc 1) false; mkEdge 1%N 2%N (Q2Qc (3#2)) true; mkEdge 2%N 0%N (Q2Qc (5#4)) false]
          [0%N; 1%N; 2%N].
Example C04_example :
  exists t, build_sampler QcS (fun x => x) ex_graph 3 = BuildOk t /\
    length (g_edges ex_graph) <= 64 /\ OrdField QcS /\
    this (t_j (nth 7 (tb_entries t) (dentry QcS))) = (52 # 5)%Q.
Proof.
  eexists. split; [vm_compute; reflexivity|]. split; [vm_compute; repeat constructor|]. split; [exact QcS_ordfield|].
  vm_compute. reflexivity.
Qed.
