(* Properties/C17.v -- sampling is a pure function of its arguments.  Statements only.
   The state-machine model has no hidden state, so these theorems are short; the content
   of C17 for the CODE is that this model is faithful, which is what the correspondence
   (histories, threads, processes) exercises.  Real data races / OS scheduling are outside
   any executable model (DESIGN.md C17). *)
From Coq Require Import ZArith List.
From MT Require Import Model.Scalar Model.Table Model.Sampling Model.Api Proofs.ApiProofs.
Import ListNotations.

Section C17.
Context {C T : Type} (SC : Scalar C C) (S : Scalar C T).
Variable igam_impl : C -> C -> nat -> C -> res C.
Variable c_is_value : C -> bool.
Variable D : nat.
Notation run := (run SC S igam_impl c_is_value D).
Notation answer := (answer SC S igam_impl c_is_value D).

(* no operation changes the sampler, and the i-th answer of ANY history is the answer the
   operation gets on its own *)
Theorem C17_state_and_function : forall (s : sampler C) (ops : list (op (C:=C) (T:=T))),
  fst (run s ops) = s /\
  forall i o, nth_error ops i = Some o -> nth_error (snd (run s ops)) i = Some (answer s o).
Proof.
  intros s ops. split.
  - rewrite (run_spec SC S igam_impl c_is_value D s ops). exact eq_refl.
  - exact (run_nth SC S igam_impl c_is_value D s ops).
Qed.

(* any interleaving of two per-thread histories on one shared sampler *)
Theorem C17_interleavings : forall (s : sampler C) (h1 h2 sched : list (op (C:=C) (T:=T))),
  interleave h1 h2 sched ->
  fst (run s sched) = s /\
  forall i o, nth_error sched i = Some o ->
    nth_error (snd (run s sched)) i = Some (answer s o) /\ snd (run s [o]) = [answer s o].
Proof. exact (run_interleaved SC S igam_impl c_is_value D). Qed.

(* from_rng draws exactly get_dimension() numbers, in order, and equals from_point on them *)
Theorem C17_rng : forall (s : sampler C) (draws : list C) (ed : list (option T * list T)) (st : settings C) (n : nat),
  ed <> [] -> get_dimension s = Ok n -> n <= length draws ->
  from_rng SC S igam_impl c_is_value D s draws ed st =
    (from_point SC S igam_impl c_is_value D s (map (s_of_c S) (firstn n draws)) ed st, skipn n draws) /\
  length (skipn n draws) = length draws - n.
Proof. exact (from_rng_spec SC S igam_impl c_is_value D). Qed.

(* return_metadata / print_debug_info: numbers unchanged, metadata present iff requested *)
Theorem C17_flags : forall (t : table C) (x : list T) (sig : list (list Z)) (ed : list (option T * list T))
    (stab : option C) (d1 d2 m1 m2 : bool),
  numeric (sample SC S igam_impl c_is_value t D x sig ed (mkSettings stab d1 m1)) =
  numeric (sample SC S igam_impl c_is_value t D x sig ed (mkSettings stab d2 m2)) /\
  forall b, has_metadata (sample SC S igam_impl c_is_value t D x sig ed (mkSettings stab d1 m1)) = Some b -> b = m1.
Proof.
  intros t x sig ed stab d1 d2 m1 m2.
  exact (conj (sample_flags SC S igam_impl c_is_value t D x sig ed stab d1 d2 m1 m2)
              (sample_metadata_flag SC S igam_impl c_is_value t D x sig ed stab d1 m1)).
Qed.

End C17.
(* several samplers (each with its own D) in one process, called in any order, e.g. from several threads: the pool is
   unchanged and call i, made on sampler k, returns what sampler k returns for that operation alone *)
Theorem C17_many_samplers : forall {C T : Type} (SC : Scalar C C) (S : Scalar C T)
    (igam_impl : C -> C -> nat -> C -> res C) (c_is_value : C -> bool)
    (p : pool (C:=C)) (calls : list (nat * op (C:=C) (T:=T))) i k o d s,
  nth_error calls i = Some (k, o) -> nth_error p k = Some (d, s) ->
  fst (run_pool SC S igam_impl c_is_value p calls) = p /\
  nth_error (snd (run_pool SC S igam_impl c_is_value p calls)) i = Some (Some (Api.answer SC S igam_impl c_is_value d s o)) /\
  snd (Api.run SC S igam_impl c_is_value d s [o]) = [Api.answer SC S igam_impl c_is_value d s o].
Proof. intros C T SC S igam_impl c_is_value. exact (run_pool_nth SC S igam_impl c_is_value). Qed.

Print Assumptions C17_state_and_function.
Print Assumptions C17_many_samplers.
Print Assumptions C17_interleavings.
Print Assumptions C17_rng.
Print Assumptions C17_flags.

(* non-vacuity: an interleaving exists and the hypotheses of C17_rng are satisfiable *)
Example C17_example : interleave [1; 2] [3] [1; 3; 2] /\ firstn 2 [5; 6; 7] = [5; 6] /\ skipn 2 [5; 6; 7] = [7].
Proof. repeat constructor. Qed.
