(* Properties/C12.v -- Gamma quantile is positive and accurate; failures are errors, not
   values.  Statements only.
   PROVED, for ALL behaviours of the external functions (ln exp powf gamma gamma_lr gamma_ur
   are parameters): the wrapper returns Ok only for a finite positive binary64 number and
   Err for everything else; the convergence exit is accurate relative to the oracle.
   NOT PROVED, validated by the check against mpmath at 40 digits (DESIGN.md C12): that the
   Schroeder iteration from the DiDonato-Morris starting values converges to |P(a,x)-p| <= 2e-8
   with statrs' incomplete gamma, and that no statrs panic (x = +inf) is reachable.
   History: before the "fix:" commit in /repo the wrapper turned only NaN into an error and
   inverse_gamma_lr(1.0, 0.0, 50, 5.0) was Ok(-0.0). *)
From Coq Require Import ZArith NArith List Floats.
From MT Require Import Model.Scalar Model.Gamma Proofs.GammaProofs.
Import ListNotations.
Open Scope float_scope.

Section C12.
Variables (ln exp : float -> float) (powf : float -> float -> float) (gam : float -> float).
Variables (glr gur : float -> float -> option float).

(* failures are errors, not values; a value is finite and > 0 *)
Theorem C12_wrapper_positive : forall a p n eps,
  match inverse_gamma_lr_f64 ln exp powf gam glr gur a p n eps with
  | Ok (Some lam) => inverse_gamma_lr_impl ln exp powf gam glr gur a p n eps = Ok lam /\
                     exists m e, Prim2SF lam = S754_finite false m e
  | Ok None => exists r, inverse_gamma_lr_impl ln exp powf gam glr gur a p n eps = Ok r /\ is_value r = false
  | Panic w => inverse_gamma_lr_impl ln exp powf gam glr gur a p n eps = Panic w
  end.
Proof. exact (wrapper_spec ln exp powf gam glr gur). Qed.

(* the convergence exit: guard passed, and |gamma_lr(a,x) - p| (resp. |gamma_ur(a,x) - q|)
   < eps * 2^-52 for the oracle's own incomplete gamma *)
Theorem C12_conv_exit : forall fuel a p q ga eps x0 x,
  iterate exp powf glr gur fuel a p q ga eps x0 = Ok (x, EXIT_CONV) ->
  (x = 0x1.cd2b297d889bcp-54 \/ (x <=? 0) = false) /\
  exists g, (if p <=? 0x1p-1 then glr a x else gur a x) = Some g /\
            (abs (if p <=? 0x1p-1 then g - p else - (g - q)) <? eps * 0x1p-52) = true.
Proof. exact (iterate_conv exp powf glr gur). Qed.

End C12.
Print Assumptions C12_wrapper_positive.
Print Assumptions C12_conv_exit.

(* the repaired witness (a = 1, p = 0 gives -ln 1 = -0.0, now an error) with ln 1 = +0, and a value *)
Example C12_example :
  inverse_gamma_lr_f64 (fun _ => 0) (fun x => x) (fun x _ => x) (fun x => x) (fun _ _ => Some 0) (fun _ _ => Some 0) 1 0 50 5 = Ok None /\
  is_value 0x1p-3 = true /\ is_value (-0) = false /\ is_value nan = false /\ is_value infinity = false.
Proof. vm_compute. repeat split. Qed.
