(* Properties/C20.v -- Vector and f64 scalar primitives implement their
   componentwise definitions.  Nothing but statements closed by [exact]. *)
From Coq Require Import ZArith List Floats.
From MT Require Import Model.Scalar Model.F64 Model.Vector Proofs.VectorProofs.
Import ListNotations.

(* + - += and scaling are the componentwise scalar operation, for every scalar
   type, every dimension, every index. *)
Theorem C20_ops : forall (C T : Type) (S : Scalar C T) (u v : list T) (c : T) (i : nat) (a b : T),
  nth_error u i = Some a -> nth_error v i = Some b ->
  nth_error (vadd S u v) i = Some (s_add S a b) /\
  nth_error (vsub S u v) i = Some (s_sub S a b) /\
  nth_error (vadd_assign S u v) i = Some (s_add S a b) /\
  nth_error (vscale S u c) i = Some (s_mul S a c).
Proof.
  intros C T S u v c i a b Ha Hb.
  exact (conj (vadd_spec S u v i a b Ha Hb) (conj (vsub_spec S u v i a b Ha Hb)
        (conj (vadd_assign_spec S u v i a b Ha Hb) (vscale_spec S u c i a Ha)))).
Qed.
Print Assumptions C20_ops.

Theorem C20_dims : forall (C T : Type) (S : Scalar C T) (u v : list T) (c : T) (D : nat),
  length u = D -> length v = D ->
  length (vadd S u v) = D /\ length (vsub S u v) = D /\ length (vscale S u c) = D /\
  length (vzero S D) = D /\ (forall i, (i < D)%nat -> nth_error (vzero S D) i = Some (s_zero S)).
Proof.
  intros C T S u v c D Hu Hv.
  exact (conj (vadd_length S u v D Hu Hv) (conj (vsub_length S u v D Hu Hv)
        (conj (eq_trans (vscale_length S u c) Hu) (conj (vzero_length S D) (vzero_spec S D))))).
Qed.
Print Assumptions C20_dims.

(* dot accumulates from index 0 starting at zero; squared v = dot v v *)
Theorem C20_dot_from_index_0 : forall (C T : Type) (S : Scalar C T),
  dot S [] [] = s_zero S /\
  forall u v a b, length u = length v ->
    dot S (u ++ [a]) (v ++ [b]) = s_add S (dot S u v) (s_mul S a b).
Proof. intros C T S. exact (conj (dot_nil S) (dot_snoc S)). Qed.
Print Assumptions C20_dot_from_index_0.

Theorem C20_squared_is_dot : forall (C T : Type) (S : Scalar C T) (u : list T),
  squared S u = dot S u u.
Proof. exact (@squared_is_dot). Qed.
Print Assumptions C20_squared_is_dot.

(* dot is symmetric bit for bit at binary64, whatever the oracle table *)
Theorem C20_dot_sym_f64 : forall (tb : oracle) (u v : list float),
  dot (F64 tb) u v = dot (F64 tb) v u.
Proof. exact dot_sym_f64. Qed.
Print Assumptions C20_dot_sym_f64.

(* the f64 dictionary: inv x = 1/x, constants, abs, from_isize *)
Theorem C20_f64_dictionary : forall (tb : oracle),
  (forall x, s_inv (F64 tb) x = PrimFloat.div 1%float x) /\
  (bits_of (s_zero (F64 tb)) = 0%Z /\ bits_of (s_one (F64 tb)) = 0x3FF0000000000000%Z /\
   bits_of (s_pi (F64 tb)) = 0x400921FB54442D18%Z) /\
  (forall x, Prim2SF (s_abs (F64 tb) x) = SFabs (Prim2SF x)) /\
  bits_of (s_of_Z (F64 tb) 0) = 0%Z /\
  (forall p, (Zpos p < 2^63)%Z ->
     Prim2SF (s_of_Z (F64 tb) (Zpos p)) = binary_normalize prec emax (Zpos p) 0 false /\
     Prim2SF (s_of_Z (F64 tb) (Zneg p)) = SFopp (binary_normalize prec emax (Zpos p) 0 false)).
Proof.
  intros tb.
  exact (conj (f64_inv_is_one_over tb) (conj (f64_constants tb) (conj (f64_abs_clears_sign tb)
        (conj (f64_of_Z_zero tb) (fun p H => conj (f64_of_Z_spec_pos tb p H) (f64_of_Z_spec_neg tb p H)))))).
Qed.
Print Assumptions C20_f64_dictionary.

(* non-vacuity / sanity: a concrete case where the accumulation start and order are visible *)
Example C20_example :
  let u := [0x1p+53; 1; 1]%float in let v := [1; 1; 1]%float in
  bits_of (dot (F64 []) u v) = bits_of 0x1p+53%float /\
  bits_of (dot (F64 []) (rev u) (rev v)) = bits_of 0x1.0000000000001p+53%float /\
  bits_of (squared (F64 []) [(-0)%float]) = 0%Z.
Proof. vm_compute. repeat split. Qed.
