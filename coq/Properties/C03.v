(* Properties/C03.v -- the subgraph table holds the true loop number, spanning flag
   and generalised degree of divergence.  Statements only, closed by [exact].

   STATUS (kept visible, see DESIGN.md C03): proved here are (i) what each of the 2^E
   entries holds in terms of the model's [loop_number], [is_mass_momentum_spanning] and
   weight sum, for every scalar type, and the global fields; (ii) [C03_components]:
   the model's [components] of every edge subset is its true component system -- a
   partition of the subset into non-empty classes, two edges in one class exactly when
   they are joined by a chain of edges of the subset sharing vertices -- so that
   [loop_number] (sum over classes of 1 + edges - vertices) and the spanning flag (one
   class touches every external vertex, all massive edges present) read as the property
   states them; (iii) [C03_euler]: L(s) + |V(s)| = |s| + number of components; (iv) [C03_spanning]: the flag
   is true exactly when all massive edges are present and one component touches every external vertex. *)
From Coq Require Import ZArith NArith List QArith Qcanon Permutation.
From MT Require Import Model.Scalar Model.Graph Model.Table Proofs.Instances Proofs.TableProofs Proofs.TableField Proofs.Components Proofs.Euler Proofs.Spanning.
Import ListNotations.
Local Open Scope nat_scope.

Section C03.
Context {C : Type} (SC : Scalar C C) (gam : C -> C).
Variables (g : graph C) (D : nat) (t : table C).
Hypothesis Hsize : length (g_edges g) < 64.
Hypothesis Hb : build_sampler SC gam g D = BuildOk t.
Let E := length (g_edges g).
Let all := combine (seq 0 E) (g_edges g).
Let nmassive := length (filter (fun e => e_massive e) (g_edges g)).

(* overall fields: dod = sum of weights - L*D/2, L = loop number of the whole edge set,
   edges (hence weights and edge count) are the input's, the table has 2^E entries,
   the dimension of the hypercube is 2E-1+DL+(DL mod 2) *)
Theorem C03_globals :
  tg_edges (tb_graph t) = g_edges g /\
  tg_ext (tb_graph t) = g_ext g /\
  tg_loops (tb_graph t) = loop_number all /\
  tg_nmassive (tb_graph t) = nmassive /\
  tg_dod (tb_graph t) = s_sub SC (weight_sum SC all) (half_LD SC (loop_number all) D) /\
  tb_dim t = D /\
  length (tb_entries t) = 2 ^ E /\
  (1 <= E -> get_num_variables t =
             Ok (2 * E - 1 + loop_number all * D + Nat.modulo (loop_number all * D) 2)).
Proof.
  exact (build_globals SC gam g D t Hsize Hb).
Qed.

(* every one of the 2^E entries: loop number and flag of exactly that subset, and
   omega(empty) = 1, omega(s) = sum_{e in s} w_e - L(s)*D/2 - [flag] * dod *)
Theorem C03_entries : forall s, (s < 2 ^ N.of_nat E)%N ->
  let e := nth (N.to_nat s) (tb_entries t) (dentry SC) in
  let sub := sub_edges (g_edges g) s in
  t_loop e = loop_number sub /\
  t_span e = is_mass_momentum_spanning nmassive (g_ext g) sub /\
  t_dod e =
    (if N.eqb s 0 then s_one SC
     else if t_span e
          then s_sub SC (s_sub SC (weight_sum SC sub) (half_LD SC (loop_number sub) D)) (tg_dod (tb_graph t))
          else s_sub SC (weight_sum SC sub) (half_LD SC (loop_number sub) D)).
Proof.
  exact (build_entries SC gam g D t Hsize Hb).
Qed.

(* the component system of every subset is the true one *)
Theorem C03_components : forall s : sid,
  let sub := sub_edges (g_edges g) s in
  let cs := components sub in
  Permutation (concat cs) sub /\
  (forall c, In c cs -> c <> []) /\
  (forall x y, In x sub -> In y sub -> (conn sub x y <-> same_comp cs x y)).
Proof.
  exact (fun s => components_are_classes (sub_edges (g_edges g) s) (sub_edges_NoDup (g_edges g) s)).
Qed.

(* Euler's formula for the whole subset: L(s) = |s| - |V(s)| + (number of components),
   written without subtraction; [verts] lists the distinct vertices touched by the subset *)
Theorem C03_euler : forall s : sid,
  let sub := sub_edges (g_edges g) s in
  loop_number sub + length (verts sub) = length sub + length (components sub).
Proof.
  exact (fun s => loop_number_euler (sub_edges (g_edges g) s)).
Qed.

(* the spanning flag in the property's words: every massive edge of the graph lies in the subset
   and one connected component of the subset touches every external vertex *)
Theorem C03_spanning : forall s : sid,
  let sub := sub_edges (g_edges g) s in
  is_mass_momentum_spanning nmassive (g_ext g) sub = true <->
  (forall p, In p all -> e_massive (snd p) = true -> In p sub) /\ touches_all (g_ext g) sub.
Proof.
  exact (fun s => spanning_semantics (g_edges g) (g_ext g) s).
Qed.

(* along a removal order the flag can only be lost: if the subset without edge e is spanning, so is the subset *)
Theorem C03_spanning_monotone : forall (s : sid) (e : nat), has_edge s e = true ->
  is_mass_momentum_spanning nmassive (g_ext g) (sub_edges (g_edges g) (pop_edge s e)) = true ->
  is_mass_momentum_spanning nmassive (g_ext g) (sub_edges (g_edges g) s) = true.
Proof.
  intros s e He. apply (spanning_monotone (g_edges g) (g_ext g) (pop_edge s e) s).
  intros f Hf. rewrite (has_edge_pop s e f He) in Hf. apply Bool.andb_true_iff in Hf. tauto.
Qed.

End C03.

Check @C03_globals. Check @C03_entries. Check @C03_components. Check @C03_euler. Check @C03_spanning. Check @C03_spanning_monotone.
Print Assumptions C03_globals.
Print Assumptions C03_entries.
Print Assumptions C03_components.
Print Assumptions C03_euler.
Print Assumptions C03_spanning.
Print Assumptions C03_spanning_monotone.

(* non-vacuity: sunrise with one massive edge over Qc, D = 3; subset {0,1} has one loop,
   is not spanning (misses the massive edge 2), omega = 1 + 1 - 3/2 = 1/2 *)
Definition sunrise : graph Qc :=
  mkGraph [mkEdge 0%N 1%N (Q2Qc 1) false; mkEdge 0%N 1%N (Q2Qc 1) false; mkEdge 0%N 1%N (Q2Qc 1) true] [0%N; 1%N].
Example C03_example :
  exists t, build_sampler QcS (fun x => x) sunrise 3 = BuildOk t /\
    let e := nth 3 (tb_entries t) (dentry QcS) in
    t_loop e = 1 /\ t_span e = false /\ this (t_dod e) = (1 # 2)%Q /\
    t_span (nth 7 (tb_entries t) (dentry QcS)) = true /\ this (tg_dod (tb_graph t)) = 0%Q.
Proof. eexists. split; [vm_compute; reflexivity|]. vm_compute. repeat split. Qed.

(* non-vacuity of the graph-side theorems on the same sunrise: the full subset has 2 loops on 2 vertices in
   1 component (2 + 2 = 3 + 1); the subset {0,1} is not spanning although it touches both external
   vertices, because the massive edge 2 is missing, and adding it back makes it spanning *)
Example C03_graph_example :
  let sub7 := sub_edges (g_edges sunrise) 7%N in
  let sub3 := sub_edges (g_edges sunrise) 3%N in
  loop_number sub7 = 2 /\ length (verts sub7) = 2 /\ length (components sub7) = 1 /\
  is_mass_momentum_spanning 1 (g_ext sunrise) sub3 = false /\
  is_mass_momentum_spanning 1 (g_ext sunrise) sub7 = true /\
  has_edge 7%N 2 = true /\ pop_edge 7%N 2 = 3%N.
Proof. vm_compute. repeat split. Qed.
