(* Properties/C06.v -- edge selection inverts the tropical edge distribution and is
   total on [0,1).  Statements only, closed by [exact].
   History: before the "fix:" commit in /repo the scan fell through to panic! whenever
   the rounded running sum ended below u (witness in known_findings.json); the model
   mirrored that and [C06_total] was refuted at binary64.  The theorems below are about
   the repaired code. *)
From Coq Require Import ZArith NArith List Floats.
From MT Require Import Model.Scalar Model.F64 Model.Graph Model.Table Model.Sampling
  Proofs.OrdField Proofs.TableProofs Proofs.SectorProofs.
Import ListNotations.

(* the first edge (index order) at which the running sum reaches u; if none does and
   u < 1, the last edge; every scalar type *)
Theorem C06_first : forall (C T : Type) (SC : Scalar C C) (S : Scalar C T) (t : table C) (u : T) (g : sid),
  let es := edges_of (nedges t) g in
  sample_edge SC S t u g =
  match find (fun ec => s_geb S (snd ec) u) (prefix_sums SC S t g (s_zero S) es) with
  | Some ec => Ok (fst ec, pop_edge g (fst ec))
  | None => match rev es with
            | e :: _ => if s_ltb S u (s_one S) then Ok (e, pop_edge g e) else Panic 20
            | [] => Panic 20
            end
  end.
Proof. exact (@sample_edge_spec). Qed.
Print Assumptions C06_first.

(* total on [0,1): for every scalar type -- binary64 with all its rounding included --
   every table, every non-empty subgraph and every u < 1, an edge of the subgraph is
   selected together with the subgraph without it; no panic *)
Theorem C06_total : forall (C T : Type) (SC : Scalar C C) (S : Scalar C T) (t : table C) (u : T) (g : sid),
  edges_of (nedges t) g <> [] -> s_ltb S u (s_one S) = true ->
  exists e, sample_edge SC S t u g = Ok (e, pop_edge g e) /\ In e (edges_of (nedges t) g).
Proof. exact (@sample_edge_total). Qed.
Print Assumptions C06_total.

Corollary C06_total_f64 : forall (tb : oracle) (t : table float) (u : float) (g : sid),
  edges_of (nedges t) g <> [] -> PrimFloat.ltb u 1 = true ->
  exists e, sample_edge (F64 tb) (F64 tb) t u g = Ok (e, pop_edge g e).
Proof.
  intros tb t u g Hne Hu. destruct (sample_edge_total (F64 tb) (F64 tb) t u g Hne Hu) as [e [He _]].
  exact (ex_intro _ e He).
Qed.
Print Assumptions C06_total_f64.

(* in exact arithmetic the running sum of an accepted table reaches one at the last edge:
   for every u <= 1 the scan itself finds the edge (the after-loop rule only repairs
   rounding and does not change the distribution) *)
Theorem C06_total_exact : forall (C : Type) (SC : Scalar C C) (gam : C -> C), OrdField SC ->
  (forall c, s_of_c SC c = c) ->
  forall (tg : tgraph C) (D : nat) (t : table C), generate_from_tropical SC gam tg D = BuildOk t ->
  forall g u, (0 < g)%N -> (g < 2 ^ N.of_nat (length (tg_edges tg)))%N -> fle SC u (s_one SC) ->
  exists e, scan_edges SC SC t u g (s_zero SC) (edges_of (nedges t) g) = Some (e, pop_edge g e).
Proof. exact (@scan_finds_exact). Qed.
Print Assumptions C06_total_exact.

(* a single remaining edge is removed without consuming a number *)
Theorem C06_single : forall (C T : Type) (SC : Scalar C C) (S : Scalar C T) (t : table C)
    (st st' : sector_state (T:=T)),
  has_one_edge (nedges t) (st_g st) = true ->
  remove_one SC S t st = Ok st' ->
  exists e, edges_of (nedges t) (st_g st) = [e] /\
            st_g st' = pop_edge (st_g st) e /\
            st_order st' = e :: st_order st /\
            (is_empty (st_g st') = true -> st_rng st' = st_rng st).
Proof. exact (@remove_one_single). Qed.
Print Assumptions C06_single.

(* witness of the repaired defect, at binary64, on the model's own table: the triangle
   of DESIGN.md 5(a); the running sum ends at 1 - 2^-52 < u = 1 - 2^-53, and the last
   edge is selected *)
From MT Require Import Model.Render.
Definition tri_tb : oracle := [].
Example C06_example :
  render_sample_edge tri_tb
    [(0%N, 1%N, false, 0x1.3d246d103fb16p+0%float); (1%N, 2%N, false, 0x1.00fb3a894fc9ep+0%float);
     (2%N, 0%N, false, 0x1.50d61b9049ce9p-1%float)] [0%N; 1%N; 2%N] 3
    [(7%N, 0x1.fffffffffffffp-1%float); (7%N, 0%float)] = [2; 3; 0; 6]%Z.
Proof. vm_compute. reflexivity. Qed.
