(* Properties/C16.v -- matrix failures are reported: singular gives ZeroDet, the stability
   test is sound.  Statements only.
   History: before the two "fix:" commits in /repo the test was `error > tol` (false for a
   NaN error, so [[-1.0]] with Some(1e-5) came back Ok full of NaN) and the zero test looked
   only at the pivot product (diag(1e-200,1e-200) came back Ok with determinant 0).  The
   model mirrored both; the theorems below are about the repaired code. *)
From Coq Require Import ZArith List Floats.
From MT Require Import Model.Scalar Model.F64 Model.Matrix Proofs.MatrixFloat.
Import ListNotations.
Local Open Scope nat_scope.

(* every scalar type: ZeroDet exactly when the pivot product or its square compares equal
   to zero, and then nothing else is computed *)
Theorem C16_zerodet : forall (C T : Type) (S : Scalar C T) (n : nat) (m : list T) (st : option C), n <> 0 ->
  (decompose_for_tropical S n m st = Ok (inl ZeroDet) <-> zero_det_test S n m = true).
Proof. exact (@decompose_zerodet_iff). Qed.
Print Assumptions C16_zerodet.

(* every scalar type: an Ok result has a determinant that does not compare equal to zero,
   and with the test enabled its error passed `error <= tolerance` *)
Theorem C16_ok : forall (C T : Type) (S : Scalar C T) (n : nat) (m : list T) (st : option C) (r : decomposition T),
  decompose_for_tropical S n m st = Ok (inr r) ->
  zero_det_test S n m = false /\ r = decomp_fields S n m /\
  (forall tol, st = Some tol -> s_leb S (stability_error S n (d_inverse r) m) (s_of_c S tol) = true).
Proof. exact (@decompose_ok). Qed.
Print Assumptions C16_ok.

Theorem C16_unstable : forall (C T : Type) (S : Scalar C T) (n : nat) (m : list T) (st : option C),
  decompose_for_tropical S n m st = Ok (inl Unstable) ->
  exists tol, st = Some tol /\
    s_leb S (stability_error S n (d_inverse (decomp_fields S n m)) m) (s_of_c S tol) = false.
Proof. exact (@decompose_unstable). Qed.
Print Assumptions C16_unstable.

(* binary64: with the stability test on, an Ok result has an error that is not NaN and an
   inverse without a single NaN entry (a NaN entry poisons its row of inverse*M, hence the
   L_{2,1} norm, and NaN <= tol is false) *)
Theorem C16_nan : forall (tb : oracle) (n : nat) (m : list float) (tol : float) (r : decomposition float),
  decompose_for_tropical (F64 tb) n m (Some tol) = Ok (inr r) ->
  ~ is_nan (stability_error (F64 tb) n (d_inverse r) m) /\
  forall i k, i < n -> k < n -> ~ is_nan (mget (F64 tb) n (d_inverse r) i k).
Proof. exact stability_rejects_nan. Qed.
Print Assumptions C16_nan.

(* the two repaired witnesses and a healthy case, on the model at binary64 *)
Example C16_example :
  decompose_for_tropical (F64 []) 1 [(-1)%float] (Some 0x1.4f8b588e368f1p-17%float) = Ok (inl Unstable) /\
  decompose_for_tropical (F64 []) 2 [0x1.7f3f4f2a1e7c3p-665; 0; 0; 0x1.7f3f4f2a1e7c3p-665]%float None = Ok (inl ZeroDet) /\
  (exists r, decompose_for_tropical (F64 []) 2 [2; 1; 1; 2]%float (Some 0x1.4f8b588e368f1p-17%float) = Ok (inr r)).
Proof.
  split; [vm_compute; reflexivity|]. split; [vm_compute; reflexivity|]. eexists. vm_compute. reflexivity.
Qed.
