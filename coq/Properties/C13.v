(* Properties/C13.v -- Gaussian vectors are the Box-Muller transform of their designated
   coordinates.  Statements only, closed by [exact].
   Not formalised (no measure theory installed, see DESIGN.md): "hence each component is
   standard normal and components are independent for a uniform point".  What is proved
   is the layout for every scalar type and, over R, the radius identity z1^2+z2^2 = -2 ln a. *)
From Coq Require Import ZArith List Reals.
From MT Require Import Model.Scalar Model.Sampling Proofs.Instances Proofs.GaussProofs.
Import ListNotations.
Local Open Scope nat_scope.

(* For every scalar type, every D and L and every point long enough: exactly
   D*L + (D*L mod 2) coordinates are read starting at the offset, and component i of loop
   vector l is, with n = l*D + i, the cosine branch (n even) or the sine branch (n odd)
   of the Box-Muller transform of the coordinate pair (off + 2*(n/2), off + 2*(n/2) + 1);
   when D*L is odd the last sine is computed and dropped. *)
Theorem C13_layout : forall (C T : Type) (S : Scalar C T) (pt : list T) (off D L : nat) (d : T),
  let nv := D * L in
  let reads := nv + Nat.modulo nv 2 in
  off + reads <= length pt ->
  exists qs,
    sample_q_vectors S (mkRng pt off) D L = Ok (qs, mkRng pt (off + reads)) /\
    length qs = L /\
    forall lv i, lv < L -> i < D ->
      let n := lv * D + i in
      let a := nth (off + 2 * (n / 2)) pt d in
      let b := nth (off + 2 * (n / 2) + 1) pt d in
      nth i (nth lv qs []) d = if Nat.even n then fst (box_muller S a b) else snd (box_muller S a b).
Proof. exact (@q_vectors_layout). Qed.
Print Assumptions C13_layout.

(* box_muller(a,b) = (cos(2 pi b) r, sin(2 pi b) r) with r = sqrt(-2 ln a), by definition
   of the model, for every scalar type *)
Theorem C13_box_muller : forall (C T : Type) (S : Scalar C T) (a b : T),
  box_muller S a b =
  (s_mul S (s_cos S (s_mul S (s_mul S (s_of_Z S 2) (s_pi S)) b)) (s_sqrt S (s_mul S (s_neg S (s_of_Z S 2)) (s_ln S a))),
   s_mul S (s_sin S (s_mul S (s_mul S (s_of_Z S 2) (s_pi S)) b)) (s_sqrt S (s_mul S (s_neg S (s_of_Z S 2)) (s_ln S a)))).
Proof. intros; exact eq_refl. Qed.
Print Assumptions C13_box_muller.

(* a point that is too short makes the model panic (index out of bounds), it never
   invents a coordinate *)
Theorem C13_short : forall (C T : Type) (S : Scalar C T) (pt : list T) (off pairs : nat),
  length pt < off + 2 * pairs -> off <= length pt ->
  exists w, gaussians S pairs (mkRng pt off) = Panic w.
Proof. exact (@gaussians_short). Qed.
Print Assumptions C13_short.

(* over the reals: the pair lies on the circle of squared radius -2 ln a *)
Theorem C13_radius : forall a b : R, (0 < a < 1)%R ->
  let z := box_muller RS a b in
  (fst z * fst z + snd z * snd z = -2 * ln a)%R.
Proof. exact box_muller_radius. Qed.
Print Assumptions C13_radius.

(* non-vacuity at binary64: D = 3, L = 1 reads 4 coordinates and drops the last sine *)
From Coq Require Import Floats.
From MT Require Import Model.F64.
Example C13_example :
  match sample_q_vectors (F64 []) (mkRng [0.5; 0.25; 0.75; 0.125; 0.9]%float 1) 3 1 with
  | Ok (qs, r) => (length qs, length (nth 0 qs []), r_counter r)
  | Panic _ => (0, 0, 0)%nat
  end = (1, 3, 5)%nat.
Proof. vm_compute. reflexivity. Qed.
