(* Properties/C11.v -- jacobian = normalisation x U^(-D/2) x V^(-dod) in the rescaled gauge.
   Statements only. *)
From Coq Require Import ZArith List Reals Lra.
From MT Require Import Model.Scalar Model.Table Model.Matrix Model.Sampling
  Proofs.Instances Proofs.SampleAnatomy Proofs.RealProofs Proofs.RealModel.
Import ListNotations.

(* every scalar type, every successful sample: the returned tropical values are 1 and
   jacobian = (1/u)^(D/2) * (1/v)^dod * cached_factor with u the determinant of the
   decomposition of L and v the V polynomial -- the exponent D/2 is D/2 for odd and even D *)
Theorem C11_formula : forall (C T : Type) (SC : Scalar C C) (S : Scalar C T)
    (igam_impl : C -> C -> nat -> C -> res C) (c_is_value : C -> bool) (d : T)
    (t : table C) (D : nat) (pt : list T) (sig : list (list Z)) (ed : list (option T * list T))
    (st : settings C) (r : sample_result T),
  sample SC S igam_impl c_is_value t D pt sig ed st = Ok (inr r) ->
  sr_utrop r = s_one S /\ sr_vtrop r = s_one S /\
  sr_jacobian r = s_mul S (s_mul S (s_powf S (s_div S (s_one S) (sr_u r)) (s_of_c S (halfD SC t)))
                                   (s_powf S (s_div S (s_one S) (sr_v r)) (s_of_c S (tg_dod (tb_graph t)))))
                          (s_of_c S (tb_factor t)).
Proof.
  intros C T SC S ig cv d t D pt sig ed st r H.
  destruct (sample_anatomy SC S ig cv d t D pt sig ed st r H)
    as [_ [sec [dc [lam [qs [_ [_ [_ [_ [_ [_ [_ [_ Hrest]]]]]]]]]]]]].
  cbv zeta in Hrest. destruct Hrest as [_ [_ [_ [H1 [H2 [H3 _]]]]]].
  exact (conj H1 (conj H2 H3)).
Qed.
Print Assumptions C11_formula.

(* over R: the value is invariant under the internal rescaling -- with U(s x) = s^L U(x),
   V(s x) = s V(x) and the normalisation of C07, the ratio (U_tr/U)^(D/2) (V_tr/V)^dod at the
   unrescaled parameters equals 1/(U(sx)^(D/2) V(sx)^dod), the factor in the formula above *)
Theorem C11_invariant : forall (U V ut vt s a w : R) (L : nat),
  (0 < U -> 0 < V -> 0 < ut -> 0 < vt -> 0 < s ->
   Rpower (s ^ L * ut) a * Rpower (s * vt) w = 1 ->
   Rpower (ut / U) a * Rpower (vt / V) w = Rpower (1 / (s ^ L * U)) a * Rpower (1 / (s * V)) w)%R.
Proof. exact jacobian_rescaling_invariant. Qed.
Print Assumptions C11_invariant.

(* non-vacuity of the hypotheses of C11_invariant: u = 4, v = 1/4, a = 1, w = 1, L = 1, s = 1 *)
Example C11_example : (Rpower (1 ^ 1 * 4) 1 * Rpower (1 * / 4) 1 = 1)%R.
Proof.
  rewrite !Rpower_1 by lra. lra.
Qed.

(* the two homogeneity facts C11_invariant rests on, for the Symanzik polynomials the model
   computes (Proofs/SymBridge.v ties Lm and Vpoly to compute_l_matrix / compute_v_polynomial):
   U(s x) = s^L U(x) and V(s x) = s V(x), any real closed field, any sizes *)
From mathcomp Require Import all_ssreflect all_algebra.
From MT Require Import Proofs.Symanzik.
Theorem C11_homogeneity : forall (F : rcfType) (nE nL nD : nat) (S : 'M[F]_(nE, nL)) (x m2 : 'rV[F]_nE)
    (P : 'M[F]_(nE, nD)) (s : F),
  s != 0%R -> Lm S x \in unitmx ->
  (\det (Lm S (s *: x)) = s ^+ nL * \det (Lm S x))%R /\
  (Vpoly S (s *: x) m2 P = s * Vpoly S x m2 P)%R.
Proof. move=> F nE nL nD S x m2 P s Hs HL; split; [exact: U_homogeneous | exact: V_homogeneous]. Qed.
Print Assumptions C11_homogeneity.
