(* Properties/C05.v -- build_sampler rejects exactly the graphs with a divergent
   proper subgraph; accepted tables have positive J; no panic within a 64-bit
   mask.  Statements only, closed by [exact]. *)
From Coq Require Import ZArith NArith List QArith Qcanon.
From MT Require Import Model.Scalar Model.Graph Model.Table
  Proofs.OrdField Proofs.Instances Proofs.TableProofs Proofs.TableField.
Import ListNotations.
Local Open Scope nat_scope.

Section C05.
Context {C : Type} (SC : Scalar C C) (gam : C -> C).
Variables (g : graph C) (D : nat).
Let E := length (g_edges g).
Let full := N.ones (N.of_nat E).
(* omega(s): the generalised degree of divergence the model stores for subset s *)
Let omega (s : sid) : C := snd (entry_shape SC (tg_of SC g D) D full s).

(* For every scalar type (binary64 included, with its own <=): Err iff some non-empty
   proper subset has omega <= 0. *)
Theorem C05_iff : E < 64 ->
  (build_sampler SC gam g D = BuildErr <->
   exists s, (s < 2 ^ N.of_nat E)%N /\ s <> 0%N /\ s <> full /\ s_leb SC (omega s) (s_zero SC) = true).
Proof.
  intros HE. rewrite (build_sampler_eq SC gam g D) by (unfold E in HE; apply Nat.lt_le_incl, HE).
  exact (build_err_iff SC gam (tg_of SC g D) D HE).
Qed.

(* no panic for E <= 63; every id of the table is filled *)
Theorem C05_total : E < 64 ->
  (forall w, build_sampler SC gam g D <> BuildPanic w) /\
  (forall t, build_sampler SC gam g D = BuildOk t -> length (tb_entries t) = 2 ^ E).
Proof.
  intros HE. rewrite (build_sampler_eq SC gam g D) by (unfold E in HE; apply Nat.lt_le_incl, HE).
  exact (conj (build_total SC gam (tg_of SC g D) D HE) (table_total SC gam (tg_of SC g D) D)).
Qed.

(* KNOWN FINDING (DESIGN.md 5(d)): the documented limit MAX_EDGES = 64 is one too
   high for a 64-bit mask -- with exactly 64 edges the build panics. *)
Theorem C05_panics_at_64_refuted : E = 64 -> build_sampler SC gam g D = BuildPanic 64.
Proof.
  intros HE. rewrite (build_sampler_eq SC gam g D) by (unfold E in HE; rewrite HE; apply le_n).
  apply (build_panics_at_64 SC gam (tg_of SC g D) D). unfold E in HE. simpl. rewrite HE. apply le_n.
Qed.

(* In an ordered field every J value of an accepted table is positive (hence non-zero
   and usable as a divisor), and every stored omega of a proper subset is positive. *)
Theorem C05_J_pos : OrdField SC -> E < 64 -> forall t, build_sampler SC gam g D = BuildOk t ->
  forall s, (s < 2 ^ N.of_nat E)%N ->
    flt SC (s_zero SC) (t_j (nth (N.to_nat s) (tb_entries t) (dentry SC))) /\
    (s <> full -> flt SC (s_zero SC) (t_dod (nth (N.to_nat s) (tb_entries t) (dentry SC)))).
Proof.
  intros OF HE t Hb s Hs.
  rewrite (build_sampler_eq SC gam g D) in Hb by (unfold E in HE; apply Nat.lt_le_incl, HE).
  exact (J_and_omega_pos SC gam OF (tg_of SC g D) D t Hb s Hs).
Qed.

End C05.

Check @C05_iff. Check @C05_total. Check @C05_panics_at_64_refuted. Check @C05_J_pos.
Print Assumptions C05_iff.
Print Assumptions C05_total.
Print Assumptions C05_panics_at_64_refuted.
Print Assumptions C05_J_pos.

(* Non-vacuity: both outcomes occur over the exact rationals.  A massless bubble with
   weights 1, D = 2: omega({e}) = 1 - 0 - dod with dod = 2 - 1 = 1, i.e. exactly 0 -> Err.
   With D = 3 it is accepted. *)
Definition bubble : graph Qc :=
  mkGraph [mkEdge 0%N 1%N (Q2Qc 1) false; mkEdge 0%N 1%N (Q2Qc 1) false] [0%N; 1%N].
Example C05_example :
  build_sampler QcS (fun x => x) bubble 2 = BuildErr /\
  (exists t, build_sampler QcS (fun x => x) bubble 3 = BuildOk t) /\ OrdField QcS.
Proof.
  split; [vm_compute; reflexivity|]. split; [eexists; vm_compute; reflexivity|exact QcS_ordfield].
Qed.
