#!/bin/bash
# usage: dbg.sh File.v LINE  -- print the goal just before LINE (development aid)
f=$1; n=$2
mkdir -p /tmp/scratch/dbg
head -n $((n-1)) "$f" > /tmp/scratch/dbg/Dbg.v
echo "Show." >> /tmp/scratch/dbg/Dbg.v
cd /verif/coq && timeout 300 coqc -noglob -Q . MT /tmp/scratch/dbg/Dbg.v 2>&1 | grep -v "^Error: There are pending" | tail -${3:-40}
