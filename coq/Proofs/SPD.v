(* Proofs/SPD.v -- C15/C10: a symmetric positive-definite matrix has positive Cholesky pivots,
   i.e. the hypothesis "the pivots met by the model's Cholesky loop are positive" of
   Proofs/LinAlg.v follows from positive definiteness (induction on the column). *)
From Coq Require Import ZArith List.
From mathcomp Require Import all_ssreflect all_algebra.
From MT Require Import Model.Scalar Model.Matrix Model.Sampling Proofs.CholSpec Proofs.LinAlg Proofs.Symanzik Proofs.SymBridge.
Set Implicit Arguments.
Unset Strict Implicit.
Unset Printing Implicit Defensive.
Import Order.TTheory GRing.Theory Num.Theory.
Local Open Scope ring_scope.

Section SPD.
Variable F : rcfType.
Variables (n : nat) (m : list F).
Let M := mx_of n m.
Let q (r c : nat) : F := qe (FS F) n m r c.
Let piv (c : nat) : F := pivot (FS F) n m c.

Hypothesis Msym : forall i j : 'I_n, M i j = M j i.
Hypothesis Mpos : forall x : 'rV[F]_n, x != 0 -> 0 < (x *m M *m x^T) 0 0.

Section Step.
Variable c : 'I_n.
Hypothesis IH : forall k : 'I_n, (k < c)%N -> 0 < piv k.

(* the finished columns k < c, completed by unit columns: lower triangular, invertible *)
Let Qc : 'M[F]_n := \matrix_(i, k) (if (k < c)%N then q i k else (i == k)%:R).
(* the finished columns alone *)
Let Qp : 'M[F]_n := \matrix_(i, k) (if (k < c)%N then q i k else 0).

Lemma Qc_entry i k : Qc i k = if (k < c)%N then q i k else (i == k)%:R.
Proof. by rewrite mxE. Qed.
Lemma Qp_entry i k : Qp i k = if (k < c)%N then q i k else 0.
Proof. by rewrite mxE. Qed.

Lemma Qc_trig : is_trig_mx Qc.
Proof.
  apply/is_trig_mxP => i k Hik; rewrite mxE; case: ifP => _; first exact: q_upper.
  by rewrite -val_eqE (ltn_eqF Hik).
Qed.

Lemma Qc_unit : Qc \in unitmx.
Proof.
  rewrite unitmxE unitfE (det_trig Qc_trig). apply/prodf_neq0 => i _; rewrite mxE.
  case: ifP => Hi; last by rewrite eqxx oner_neq0.
  by rewrite /q q_diag lt0r_neq0 // sqrtr_gt0; exact: IH.
Qed.

Let x : 'rV[F]_n := delta_mx 0 c *m invmx Qc.

Lemma x_Qc : x *m Qc = delta_mx 0 c.
Proof. by rewrite /x mulmxKV // Qc_unit. Qed.

Lemma x_col (k : 'I_n) : \sum_i x 0 i * Qc i k = (k == c)%:R.
Proof.
  have := congr1 (fun A : 'rV[F]_n => A 0 k) x_Qc.
  by rewrite !mxE eqxx /= eq_sym.
Qed.

(* beyond the finished columns x is the unit vector e_c *)
Lemma x_tail (k : 'I_n) : (c <= k)%N -> x 0 k = (k == c)%:R.
Proof.
  move=> Hck; rewrite -x_col (bigD1 k) //= Qc_entry ltnNge Hck /= eqxx mulr1 big1 ?addr0 // => i Hik.
  by rewrite Qc_entry ltnNge Hck /= (negbTE Hik) mulr0.
Qed.

Lemma x_c : x 0 c = 1.
Proof. by rewrite x_tail // eqxx. Qed.

Lemma x_above (k : 'I_n) : (c < k)%N -> x 0 k = 0.
Proof. by move=> Hck; rewrite x_tail ?(ltnW Hck) // -val_eqE (gtn_eqF Hck). Qed.

Lemma x_Qp : x *m Qp = 0.
Proof.
  apply/rowP => k; rewrite [LHS]mxE [RHS]mxE.
  case Hk: (k < c)%N.
  - rewrite (eq_bigr (fun i => x 0 i * Qc i k)); last by move=> i _; rewrite Qc_entry Qp_entry Hk.
    by rewrite x_col -val_eqE (ltn_eqF Hk).
  - by rewrite big1 // => i _; rewrite Qp_entry Hk mulr0.
Qed.

Lemma x_neq0 : x != 0.
Proof.
  apply/eqP => H. have := x_c. rewrite H mxE => /eqP. by rewrite eq_sym oner_eq0.
Qed.

(* on the leading block (indices <= c) M is Qp Qp^T + piv c e_c e_c^T *)
Let P : 'M[F]_n := Qp *m Qp^T + piv c *: delta_mx c c.

Lemma QpQpT (i j : 'I_n) : (j <= c)%N ->
  (Qp *m Qp^T) i j = \sum_(k < n) (if (k < c)%N then q i k * q j k else 0).
Proof.
  move=> _; rewrite mxE; apply: eq_bigr => k _; rewrite !mxE.
  by case: ifP => _ //; rewrite mul0r.
Qed.

(* sum over the finished columns = sum over all columns when j < c, since q j k = 0 for k > j *)
Lemma sum_finished (i j : 'I_n) : (j < c)%N ->
  \sum_(k < n) (if (k < c)%N then q i k * q j k else 0) = \sum_(k < n) q i k * q j k.
Proof.
  move=> Hjc; apply: eq_bigr => k _; case: ifP => // Hk.
  have Hjk : (j < k)%N by apply: (leq_trans Hjc); rewrite leqNgt Hk.
  by rewrite /q (@q_upper F n m _ _ Hjk) mulr0.
Qed.

Lemma P_entry (i j : 'I_n) : P i j = (Qp *m Qp^T) i j + piv c * ((i == c) && (j == c))%:R.
Proof. by rewrite /P mxE; congr (_ + _); rewrite !mxE. Qed.

Lemma block_entry_le (i j : 'I_n) : (j <= i)%N -> (i <= c)%N -> M i j = P i j.
Proof.
  move=> Hji Hic. have Hjc : (j <= c)%N := leq_trans Hji Hic.
  rewrite P_entry (QpQpT _ Hjc).
  case: (ltngtP j c) Hjc => // [Hjc _|Hjc _].
  - (* a finished column *)
    rewrite -[j == c]val_eqE (ltn_eqF Hjc) andbF mulr0 addr0 (sum_finished _ Hjc) (@row_product F n m _ _ Hji).
    have Hpj : 0 < piv j := IH Hjc.
    case: (ltngtP j i) Hji => // [Hlt _|Heq _].
    + rewrite (@q_lower F n m _ _ Hlt) q_diag divfK; last by rewrite lt0r_neq0 // sqrtr_gt0.
      rewrite (eq_bigr (fun k : 'I_j => qe (FS F) n m j (k : nat) * qe (FS F) n m i (k : nat))); last by move=> k _; rewrite mulrC.
      by rewrite addrC subrK Msym.
    + have -> : i = j by apply/ord_inj.
      rewrite q_diag -expr2 sqr_sqrtr; last exact: ltW.
      by rewrite (@pivotE F n m _) addrC subrK.
  - (* the current column: j = c, hence i = c *)
    have Ej : j = c by apply/ord_inj.
    have Ei : i = c by apply/ord_inj/eqP; rewrite eqn_leq Hic -Hjc Hji.
    rewrite Ei Ej !eqxx /= mulr1 /piv (@pivotE F n m _).
    rewrite -big_mkcond /= (big_ord_narrow (ltnW (ltn_ord c))) /=.
    by rewrite addrC subrK.
Qed.

Lemma P_sym (i j : 'I_n) : P i j = P j i.
Proof.
  rewrite !P_entry andbC; congr (_ + _).
  rewrite [LHS]mxE [RHS]mxE; apply: eq_bigr => k _.
  by rewrite [Qp^T k j]mxE [Qp^T k i]mxE mulrC.
Qed.

Lemma block_entry (i j : 'I_n) : (i <= c)%N -> (j <= c)%N -> M i j = P i j.
Proof.
  move=> Hi Hj; case/orP: (leq_total j i) => Hij; first exact: block_entry_le.
  by rewrite Msym P_sym; exact: block_entry_le.
Qed.

(* the projector on the indices <= c fixes x *)
Let Dc : 'M[F]_n := diag_mx (\row_i ((i <= c)%N)%:R).

Lemma xD : x *m Dc = x.
Proof.
  apply/rowP => k; rewrite mul_mx_diag mxE [(\row_i _) 0 k]mxE.
  case Hk: (k <= c)%N; first by rewrite mulr1.
  by rewrite mulr0 x_above // ltnNge Hk.
Qed.

Lemma xDT : Dc *m x^T = x^T.
Proof. by rewrite -[Dc]tr_diag_mx -trmx_mul xD. Qed.

Lemma DMD : Dc *m M *m Dc = Dc *m P *m Dc.
Proof.
  apply/matrixP => i j; rewrite !mul_mx_diag [LHS]mxE [RHS]mxE !mul_diag_mx.
  rewrite [(\matrix_(_, _) _) i j]mxE [(\matrix_(i0, j0) ((\row_i1 _) 0 i0 * P i0 j0)) i j]mxE.
  rewrite ![(\row_i _) 0 _]mxE.
  case Hi: (i <= c)%N; last by rewrite !mul0r.
  case Hj: (j <= c)%N; last by rewrite !mulr0.
  by rewrite block_entry.
Qed.

Lemma sandwich (A : 'M[F]_n) : x *m (Dc *m A *m Dc) *m x^T = x *m A *m x^T.
Proof. by rewrite !mulmxA xD -[LHS]mulmxA xDT. Qed.

Lemma quad_delta : (x *m delta_mx c c *m x^T) 0 0 = x 0 c * x 0 c.
Proof.
  rewrite mxE (bigD1 c) //= [X in _ + X]big1 ?addr0.
  - rewrite [x^T c 0]mxE; congr (_ * _).
    rewrite mxE (bigD1 c) //= big1 ?addr0; first by rewrite [delta_mx _ _ _ _]mxE !eqxx mulr1.
    by move=> i Hi; rewrite [delta_mx _ _ _ _]mxE (negbTE Hi) mulr0.
  - move=> k Hk.
    have -> : (x *m delta_mx c c) 0 k = 0; last by rewrite mul0r.
    by rewrite mxE big1 // => i _; rewrite [delta_mx _ _ _ _]mxE (negbTE Hk) andbF mulr0.
Qed.

(* x^T M x = piv c *)
Lemma quad_form : (x *m M *m x^T) 0 0 = piv c.
Proof.
  rewrite -sandwich DMD sandwich /P mulmxDr mulmxDl [LHS]mxE.
  have -> : x *m (Qp *m Qp^T) *m x^T = 0.
    by rewrite mulmxA -mulmxA -trmx_mul x_Qp mul0mx.
  rewrite mxE add0r -scalemxAr -scalemxAl mxE quad_delta x_c !mulr1.
  by [].
Qed.

Lemma pivot_step : 0 < piv c.
Proof. by rewrite -quad_form; apply: Mpos; exact: x_neq0. Qed.

End Step.

(* every pivot met by the model's Cholesky loop is positive *)
Theorem spd_pivots_pos (c : 'I_n) : 0 < pivot (FS F) n m c.
Proof.
  have H : forall k (c : 'I_n), (c < k)%N -> 0 < piv c.
    elim=> [|k IHk] c0 //; rewrite ltnS => Hc.
    by apply: pivot_step => j Hj; apply: IHk; exact: leq_trans Hj Hc.
  exact: (H c.+1).
Qed.

End SPD.

(* ---------- the L matrix S^T X S of a graph is positive definite ---------- *)
Section LPos.
Variable F : rcfType.
Variables (nE nL : nat) (S : 'M[F]_(nE, nL)) (x : 'rV[F]_nE).
Hypothesis xpos : forall e, 0 < x 0 e.
Hypothesis Sfree : row_free S^T.      (* the nL columns of the signature are independent: a cycle basis *)

Lemma diag_quad_pos (z : 'rV[F]_nE) : z != 0 -> 0 < (z *m diag_mx x *m z^T) 0 0.
Proof.
  move=> /rV0Pn [e He].
  rewrite mul_mx_diag mxE (bigD1 e) //=.
  apply: ltr_paddr.
  - apply: sumr_ge0 => i _; rewrite !mxE mulrAC -expr2; apply: mulr_ge0; last exact: ltW.
    exact: sqr_ge0.
  - rewrite !mxE mulrAC -expr2; apply: mulr_gt0 => //.
    by rewrite lt_def sqr_ge0 sqrf_eq0 He.
Qed.

Lemma Lm_posdef (y : 'rV[F]_nL) : y != 0 -> 0 < (y *m Lm S x *m y^T) 0 0.
Proof.
  move=> Hy.
  have Hz : y *m S^T != 0.
    apply: contra Hy => /eqP Hz0.
    have /row_freeP [B HB] := Sfree.
    by rewrite -[y]mulmx1 -HB mulmxA Hz0 mul0mx.
  have -> : y *m Lm S x *m y^T = (y *m S^T) *m diag_mx x *m (y *m S^T)^T.
    by rewrite /Lm trmx_mul trmxK !mulmxA.
  exact: diag_quad_pos.
Qed.

End LPos.

(* the pivots of the model's Cholesky loop on the model's L matrix are positive when the
   Feynman parameters are positive and the signature columns are independent *)
Theorem l_matrix_pivots_pos (F : rcfType) (nE nL : nat) (x : list F) (sig : list (list Z)) :
  List.length sig = nE ->
  (forall e : 'I_nE, 0 < List.nth e x 0) -> row_free (Sm F nE nL sig)^T ->
  forall c : 'I_nL, 0 < pivot (FS F) nL (compute_l_matrix (FS F) x sig nL) c.
Proof.
  move=> Hsig Hx Hfree.
  have EL : mx_of nL (compute_l_matrix (FS F) x sig nL) = Lm (Sm F nE nL sig) (xr nE x) by exact: l_matrix_bridge.
  apply: spd_pivots_pos.
  - by move=> i j; rewrite EL -{1}(Lm_sym (Sm F nE nL sig) (xr nE x)) mxE.
  - move=> y Hy; rewrite EL; apply: Lm_posdef => // e; by rewrite mxE.
Qed.
