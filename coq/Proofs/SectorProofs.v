(* Proofs/SectorProofs.v -- sample_edge (C06) and the removal loop (C06, C07, C14). *)
From Coq Require Import ZArith NArith List Bool Lia Arith.
From MT Require Import Model.Scalar Model.Graph Model.Table Model.Matrix Model.Sampling
  Proofs.OrdField Proofs.TableProofs Proofs.TableField.
Import ListNotations.

Section Edge.
Context {C T : Type} (SC : Scalar C C) (S : Scalar C T).

(* the running sums the scan forms, in edge order, from a given start *)
Fixpoint prefix_sums (t : table C) (g : sid) (cum : T) (es : list nat) : list (nat * T) :=
  match es with
  | [] => []
  | e :: es' => let cum' := s_add S cum (edge_prob SC S t g e) in (e, cum') :: prefix_sums t g cum' es'
  end.

Lemma scan_is_find t u g cum es :
  scan_edges SC S t u g cum es =
  option_map (fun ec => (fst ec, pop_edge g (fst ec)))
             (find (fun ec => s_geb S (snd ec) u) (prefix_sums t g cum es)).
Proof.
  revert cum; induction es as [|e es IH]; intros cum; [reflexivity|].
  cbn [scan_edges prefix_sums find]. cbn [snd fst].
  destruct (s_geb S (s_add S cum (edge_prob SC S t g e)) u); [reflexivity|apply IH].
Qed.

Lemma scan_in t u g cum es e h : scan_edges SC S t u g cum es = Some (e, h) -> In e es /\ h = pop_edge g e.
Proof.
  revert cum; induction es as [|x es IH]; intros cum; cbn [scan_edges]; [discriminate|].
  destruct (s_geb S _ u).
  - intros H; inversion H; subst. split; [left; reflexivity|reflexivity].
  - intros H. apply IH in H. destruct H as [H1 H2]. split; [right; exact H1|exact H2].
Qed.

(* sample_edge: the first crossing if there is one; otherwise, for u < 1, the last edge *)
Lemma sample_edge_spec t u g :
  let es := edges_of (nedges t) g in
  sample_edge SC S t u g =
  match find (fun ec => s_geb S (snd ec) u) (prefix_sums t g (s_zero S) es) with
  | Some ec => Ok (fst ec, pop_edge g (fst ec))
  | None => match rev es with
            | e :: _ => if s_ltb S u (s_one S) then Ok (e, pop_edge g e) else Panic 20
            | [] => Panic 20
            end
  end.
Proof.
  cbv zeta. unfold sample_edge. rewrite scan_is_find.
  destruct (find _ _) as [[e c]|]; reflexivity.
Qed.

(* total: on every non-empty subgraph and every u below one an edge of the subgraph is
   selected -- for EVERY scalar type, binary64 with its rounding included *)
Lemma sample_edge_total t u g :
  edges_of (nedges t) g <> [] -> s_ltb S u (s_one S) = true ->
  exists e, sample_edge SC S t u g = Ok (e, pop_edge g e) /\ In e (edges_of (nedges t) g).
Proof.
  intros Hne Hu. unfold sample_edge.
  destruct (scan_edges SC S t u g (s_zero S) (edges_of (nedges t) g)) as [[e h]|] eqn:Hs.
  - apply scan_in in Hs. destruct Hs as [Hin ->]. exists e. split; [reflexivity|exact Hin].
  - destruct (rev (edges_of (nedges t) g)) as [|e l] eqn:Hr.
    + exfalso. apply Hne. apply (f_equal (@rev nat)) in Hr. rewrite rev_involutive in Hr. exact Hr.
    + rewrite Hu. exists e. split; [reflexivity|].
      apply in_rev. rewrite Hr. left. reflexivity.
Qed.

Lemma sample_edge_in t u g e h :
  sample_edge SC S t u g = Ok (e, h) -> In e (edges_of (nedges t) g) /\ h = pop_edge g e.
Proof.
  unfold sample_edge.
  destruct (scan_edges SC S t u g (s_zero S) (edges_of (nedges t) g)) as [[e' h']|] eqn:Hs.
  - intros H; inversion H; subst. apply scan_in in Hs. exact Hs.
  - destruct (rev (edges_of (nedges t) g)) as [|e' l] eqn:Hr; [discriminate|].
    destruct (s_ltb S u (s_one S)); [|discriminate].
    intros H; inversion H; subst. split; [|reflexivity].
    apply in_rev. rewrite Hr. left. reflexivity.
Qed.

End Edge.

(* if the scan finds no crossing, the total running sum is below u (any scalar type) *)
Section ScanNone.
Context {C T : Type} (SC : Scalar C C) (S : Scalar C T).

Lemma find_none_total t g u cum es : es <> [] ->
  find (fun ec => s_geb S (snd ec) u) (prefix_sums SC S t g cum es) = None ->
  s_geb S (fold_left (s_add S) (map (edge_prob SC S t g) es) cum) u = false.
Proof.
  revert cum; induction es as [|x es IH]; intros cum Hne; [congruence|].
  cbn [prefix_sums find map fold_left snd].
  destruct (s_geb S (s_add S cum (edge_prob SC S t g x)) u) eqn:Hg; [discriminate|].
  destruct es as [|y es']; [intros _; exact Hg|].
  intros Hf. apply IH; [discriminate|exact Hf].
Qed.

End ScanNone.

(* exact arithmetic: on an accepted table the running sum reaches 1 at the last edge, so
   for u <= 1 the scan itself selects an edge and the after-loop rule is never used *)
Section EdgeExact.
Context {C : Type} (SC : Scalar C C) (gam : C -> C) (OF : OrdField SC).
Hypothesis Hid : forall c, s_of_c SC c = c.
Variables (tg : tgraph C) (D : nat) (t : table C).
Hypothesis Hb : generate_from_tropical SC gam tg D = BuildOk t.

Lemma nedges_tg : nedges t = length (tg_edges tg).
Proof.
  unfold nedges. destruct (table_globals SC gam tg D t Hb) as [-> _]. reflexivity.
Qed.

Lemma scan_finds_exact g u :
  (0 < g)%N -> (g < 2 ^ N.of_nat (length (tg_edges tg)))%N -> fle SC u (s_one SC) ->
  exists e, scan_edges SC SC t u g (s_zero SC) (edges_of (nedges t) g) = Some (e, pop_edge g e).
Proof.
  intros Hpos Hlt Hu. rewrite nedges_tg.
  set (E := length (tg_edges tg)) in *.
  assert (Hne : edges_of E g <> []) by (apply edges_of_nonempty; assumption).
  rewrite scan_is_find.
  destruct (find _ _) as [[e c]|] eqn:Hf; [exists e; reflexivity|exfalso].
  apply (find_none_total SC SC t g u (s_zero SC) (edges_of E g) Hne) in Hf.
  pose proof (probs_sum_one SC gam OF tg D t Hb g Hpos Hlt) as H1. fold E in H1.
  unfold fsum_from in H1.
  assert (Heq : map (edge_prob SC SC t g) (edges_of E g) =
    map (fun e => s_div SC (s_div SC (t_j (nth (N.to_nat (pop_edge g e)) (tb_entries t) (TableProofs.dentry SC)))
                                    (t_j (nth (N.to_nat g) (tb_entries t) (TableProofs.dentry SC))))
                          (t_dod (nth (N.to_nat (pop_edge g e)) (tb_entries t) (TableProofs.dentry SC))))
        (edges_of E g)).
  { apply map_ext. intros e. unfold edge_prob, ent. rewrite !Hid. reflexivity. }
  rewrite Heq, H1 in Hf. unfold s_geb in Hf. unfold fle in Hu. congruence.
Qed.

End EdgeExact.

(* the single-edge shortcut: the last edge is removed without consuming a number *)
Section Single.
Context {C T : Type} (SC : Scalar C C) (S : Scalar C T).

Lemma remove_one_single t st st' :
  has_one_edge (nedges t) (st_g st) = true ->
  remove_one SC S t st = Ok st' ->
  exists e, edges_of (nedges t) (st_g st) = [e] /\
            st_g st' = pop_edge (st_g st) e /\
            st_order st' = e :: st_order st /\
            (is_empty (st_g st') = true -> st_rng st' = st_rng st).
Proof.
  intros H1 Hr. unfold remove_one in Hr. rewrite H1 in Hr.
  unfold has_one_edge in H1. apply Nat.eqb_eq in H1.
  destruct (edges_of (nedges t) (st_g st)) as [|e [|e2 l]] eqn:He; try discriminate.
  exists e. split; [reflexivity|]. cbn [rbind] in Hr.
  destruct (is_empty (pop_edge (st_g st) e)) eqn:Hemp.
  - inversion Hr; subst st'. cbn. repeat split; auto.
  - destruct (rng_next (st_rng st)) as [[xi r']|w] eqn:Hn; cbn [rbind] in Hr; [|discriminate].
    inversion Hr; subst st'. cbn. repeat split; auto.
    intros Hc. congruence.
Qed.

End Single.
