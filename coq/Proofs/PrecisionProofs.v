(* Proofs/PrecisionProofs.v -- C19: the sampler uses the narrowing [to_f64] of the user's
   scalar type only inside the Gamma quantile draw. *)
From Coq Require Import ZArith NArith List Bool.
From MT Require Import Model.Scalar Model.Graph Model.Table Model.Vector Model.Matrix Model.Sampling.
Import ListNotations.

(* the same dictionary with another narrowing function *)
Definition with_to_c {C T} (S : Scalar C T) (f : T -> C) : Scalar C T :=
  mkScalar C T (s_add S) (s_sub S) (s_mul S) (s_div S) (s_neg S) (s_inv S) (s_abs S) (s_sqrt S)
           (s_ln S) (s_exp S) (s_cos S) (s_sin S) (s_powf S) (s_zero S) (s_one S) (s_pi S)
           (s_of_Z S) (s_of_c S) f (s_eqb S) (s_ltb S) (s_leb S).

Section OnlyGamma.
Context {C T : Type} (SC : Scalar C C) (S : Scalar C T) (f : T -> C).
Variable igam_impl : C -> C -> nat -> C -> res C.
Variable c_is_value : C -> bool.
Let S' := with_to_c S f.

(* every stage except the Gamma draw is literally the same function for S and S':
   unfold to the primitive operations of the dictionary, where the projections of
   [with_to_c S f] reduce to those of S *)
Ltac same :=
  subst S'; unfold with_to_c;
  repeat (progress unfold
    permatuhedral_sampling, sector_loop, remove_one, sample_edge, scan_edges, edge_prob, rng_next, halfD,
    compute_l_matrix, decompose_for_tropical, cholesky, chol_columns, chol_column, n_powers, mmul, madd, msub, mtranspose,
    midentity, mzeros, l21_norm, tabulate, mget, mset, s_geb, s_gtb,
    sample_q_vectors, gaussians, box_muller, chunks,
    compute_u_vectors, compute_v_polynomial, compute_loop_momenta, compute_only_shift,
    Vector.vadd, Vector.vsub, Vector.vscale, Vector.vzero, Vector.dot, Vector.squared, Vector.map2);
  cbn [s_add s_sub s_mul s_div s_neg s_inv s_abs s_sqrt s_ln s_exp s_cos s_sin s_powf s_zero s_one s_pi
       s_of_Z s_of_c s_eqb s_ltb s_leb];
  reflexivity.

Lemma sector_same t r : permatuhedral_sampling SC S' t r = permatuhedral_sampling SC S t r.
Proof. same. Qed.
Lemma lmatrix_same x sig L : compute_l_matrix S' x sig L = compute_l_matrix S x sig L.
Proof. same. Qed.


Ltac proj := cbn [s_add s_sub s_mul s_div s_neg s_inv s_abs s_sqrt s_ln s_exp s_cos s_sin s_powf s_zero s_one s_pi
       s_of_Z s_of_c s_eqb s_ltb s_leb].
Ltac small l := subst S'; unfold with_to_c; repeat (progress unfold l, mget, mset, mzeros, tabulate); proj; reflexivity.

Lemma cholesky_same n m : cholesky S' n m = cholesky S n m.
Proof. subst S'; unfold with_to_c, cholesky, chol_columns, chol_column, mget; proj; reflexivity. Qed.
Lemma det_q_same n q : det_q_of S' n q = det_q_of S n q.
Proof. subst S'; unfold with_to_c, det_q_of, mget; proj; reflexivity. Qed.
Lemma inv_diag_same n q : inv_diag_of S' n q = inv_diag_of S n q.
Proof. subst S'; unfold with_to_c, inv_diag_of, mget; proj; reflexivity. Qed.
Lemma n_matrix_same n q i : n_matrix_of S' n q i = n_matrix_of S n q i.
Proof. subst S'; unfold with_to_c, n_matrix_of, mget; proj; reflexivity. Qed.
Lemma n_sum_same n nm : n_sum_of S' n nm = n_sum_of S n nm.
Proof. subst S'; unfold with_to_c, n_sum_of, n_powers, mmul, madd, msub, mzeros, mget; proj; reflexivity. Qed.
Lemma inverse_q_same n ns i : inverse_q_of S' n ns i = inverse_q_of S n ns i.
Proof. subst S'; unfold with_to_c, inverse_q_of, mget; proj; reflexivity. Qed.
Lemma mtranspose_same n a : mtranspose S' n a = mtranspose S n a.
Proof. subst S'; unfold with_to_c, mtranspose, mget; proj; reflexivity. Qed.
Lemma mmul_same n a b : mmul S' n a b = mmul S n a b.
Proof. subst S'; unfold with_to_c, mmul, mget; proj; reflexivity. Qed.
Lemma stability_error_same n a b : stability_error S' n a b = stability_error S n a b.
Proof. subst S'; unfold with_to_c, stability_error, l21_norm, msub, mmul, midentity, mget; proj; reflexivity. Qed.

Lemma decomp_fields_same n m : decomp_fields S' n m = decomp_fields S n m.
Proof.
  unfold decomp_fields.
  rewrite cholesky_same. generalize (cholesky S n m). intros q.
  rewrite det_q_same, inv_diag_same. generalize (det_q_of S n q) (inv_diag_of S n q). intros dq idg.
  cbv zeta. rewrite n_matrix_same, n_sum_same, inverse_q_same, !mtranspose_same, mmul_same.
  subst S'. unfold with_to_c. proj. reflexivity.
Qed.

Lemma decompose_same n m st : decompose_for_tropical S' n m st = decompose_for_tropical S n m st.
Proof.
  unfold decompose_for_tropical.
  rewrite cholesky_same, det_q_same, decomp_fields_same.
  generalize (det_q_of S n (cholesky S n m)) (decomp_fields S n m). intros dq r.
  cbv zeta. rewrite stability_error_same.
  subst S'. unfold with_to_c. proj. reflexivity.
Qed.

Lemma qvec_same r D L : sample_q_vectors S' r D L = sample_q_vectors S r D L.
Proof. same. Qed.
Lemma uvec_same D x sig L sh : compute_u_vectors S' D x sig L sh = compute_u_vectors S D x sig L sh.
Proof. same. Qed.
Lemma vpoly_same x us L li sh ms : compute_v_polynomial S' x us L li sh ms = compute_v_polynomial S x us L li sh ms.
Proof. same. Qed.
Lemma momenta_same D v lam L qi qs li us :
  compute_loop_momenta S' D v lam L qi qs li us = compute_loop_momenta S D v lam L qi qs li us.
Proof. same. Qed.
Lemma shift_same D L li us : compute_only_shift S' D L li us = compute_only_shift S D L li us.
Proof. same. Qed.

Theorem sample_only_gamma t D x sig ed st :
  (forall a p n eps, inverse_gamma_lr S' igam_impl c_is_value a p n eps =
                     inverse_gamma_lr S igam_impl c_is_value a p n eps) ->
  sample SC S' igam_impl c_is_value t D x sig ed st = sample SC S igam_impl c_is_value t D x sig ed st.
Proof.
  intros Hg. unfold sample.
  destruct (negb (well_formed_input t D sig ed)); [reflexivity|].
  destruct x as [|x0 x']; [reflexivity|].
  rewrite sector_same.
  destruct (permatuhedral_sampling SC S t (mkRng (x0 :: x') 0)) as [sec|w]; [|reflexivity].
  cbn [rbind]. rewrite lmatrix_same, decompose_same.
  destruct (decompose_for_tropical S (tg_loops (tb_graph t)) _ (set_stability st)) as [[e|dc]|w]; [reflexivity| |reflexivity].
  cbn [rbind].
  destruct (rng_next (sec_rng sec)) as [pr|w]; [|reflexivity]. cbn [rbind].
  change (s_of_c S') with (s_of_c S). rewrite Hg.
  destruct (inverse_gamma_lr S igam_impl c_is_value _ (fst pr) 50 _) as [[lambda|]|w]; [|reflexivity|reflexivity].
  cbn [rbind]. rewrite qvec_same.
  destruct (sample_q_vectors S (snd pr) (tb_dim t) (tg_loops (tb_graph t))) as [qr|w]; [|reflexivity].
  cbn [rbind]. reflexivity.
Qed.

(* and the Gamma draw narrows exactly its three arguments *)
Lemma gamma_draw_narrows a p n eps :
  inverse_gamma_lr S igam_impl c_is_value a p n eps =
  rbind (igam_impl (s_to_c S a) (s_to_c S p) n (s_to_c S eps))
        (fun r => Ok (if c_is_value r then Some (s_of_c S r) else None)).
Proof. reflexivity. Qed.

End OnlyGamma.
