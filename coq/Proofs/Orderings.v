(* Proofs/Orderings.v -- [orderings] enumerates every ordering of a duplicate-free
   list exactly once: there are (length l)! of them, they are pairwise distinct,
   and a list is among them iff it is a permutation of l. *)
From Coq Require Import List Arith Lia Permutation Factorial.
From MT Require Import Proofs.TableField.
Import ListNotations.

Lemma flat_map_length_const {A B} (f : A -> list B) l c :
  (forall x, In x l -> length (f x) = c) -> length (flat_map f l) = length l * c.
Proof.
  induction l as [|x l IH]; intros H; [reflexivity|].
  cbn [flat_map length]. rewrite app_length, H by (left; reflexivity).
  rewrite IH by (intros y Hy; apply H; right; exact Hy). lia.
Qed.

Lemma remove_NoDup x (l : list nat) : NoDup l -> NoDup (remove Nat.eq_dec x l).
Proof.
  induction l as [|y l IH]; intros Hnd; [constructor|].
  inversion Hnd; subst. cbn [remove]. destruct (Nat.eq_dec x y); [apply IH; assumption|].
  constructor; [|apply IH; assumption].
  intros Hin. apply in_remove in Hin. tauto.
Qed.

Lemma perm_remove x (l : list nat) : NoDup l -> In x l -> Permutation l (x :: remove Nat.eq_dec x l).
Proof.
  induction l as [|y l IH]; intros Hnd Hin; [destruct Hin|].
  inversion Hnd as [|? ? Hny Hnd']; subst. cbn [remove].
  destruct (Nat.eq_dec x y) as [->|Hne].
  - rewrite notin_remove by exact Hny. reflexivity.
  - destruct Hin as [->|Hin]; [congruence|].
    rewrite (IH Hnd' Hin) at 1. apply perm_swap.
Qed.

Lemma orderings_length k (l : list nat) : NoDup l -> length l = k ->
  length (orderings k l) = fact k.
Proof.
  revert l; induction k as [|k IH]; intros l Hnd Hlen; [reflexivity|].
  destruct l as [|a l']; [discriminate|]. cbn [orderings].
  rewrite (flat_map_length_const _ _ (fact k)).
  - rewrite Hlen. reflexivity.
  - intros x Hx. rewrite map_length. apply IH.
    + apply remove_NoDup, Hnd.
    + rewrite remove_length_nodup by assumption. lia.
Qed.

Lemma orderings_perm k (l s : list nat) : NoDup l -> length l = k ->
  (In s (orderings k l) <-> Permutation s l).
Proof.
  revert l s; induction k as [|k IH]; intros l s Hnd Hlen.
  - destruct l; [|discriminate]. cbn. split.
    + intros [<-|[]]. constructor.
    + intros H. apply Permutation_sym, Permutation_nil in H. left. congruence.
  - destruct l as [|a l']; [discriminate|]. cbn [orderings]. rewrite in_flat_map. split.
    + intros [x [Hx Hs]]. apply in_map_iff in Hs. destruct Hs as [s' [<- Hs']].
      apply IH in Hs'; [|apply remove_NoDup, Hnd|rewrite remove_length_nodup by assumption; lia].
      rewrite (perm_remove x (a :: l') Hnd Hx). constructor. exact Hs'.
    + intros Hp. destruct s as [|x s'].
      { apply Permutation_nil in Hp. discriminate. }
      assert (Hx : In x (a :: l')) by (apply (Permutation_in x Hp); left; reflexivity).
      exists x. split; [exact Hx|]. apply in_map. apply IH.
      * apply remove_NoDup, Hnd.
      * rewrite remove_length_nodup by assumption. lia.
      * rewrite (perm_remove x (a :: l') Hnd Hx) in Hp. apply Permutation_cons_inv in Hp. exact Hp.
Qed.

Lemma NoDup_app_intro {A} (l1 l2 : list A) :
  NoDup l1 -> NoDup l2 -> (forall x, In x l1 -> ~ In x l2) -> NoDup (l1 ++ l2).
Proof.
  induction l1 as [|a l1 IH]; intros H1 H2 Hd; [exact H2|].
  inversion H1; subst. cbn. constructor.
  - rewrite in_app_iff. intros [H|H]; [contradiction|]. apply (Hd a); [left; reflexivity|exact H].
  - apply IH; [assumption|assumption|]. intros x Hx. apply Hd. right. exact Hx.
Qed.

Lemma NoDup_map_cons (x : nat) (ls : list (list nat)) : NoDup ls -> NoDup (map (cons x) ls).
Proof.
  induction ls as [|s ls IH]; intros H; [constructor|].
  inversion H; subst. cbn. constructor; [|apply IH; assumption].
  intros Hin. apply in_map_iff in Hin. destruct Hin as [s' [Heq Hin]].
  inversion Heq; subst. contradiction.
Qed.

Lemma NoDup_flat_map_heads (f : nat -> list (list nat)) (m : list nat) :
  NoDup m -> (forall x, In x m -> NoDup (f x)) ->
  (forall x s, In s (f x) -> hd_error s = Some x) ->
  NoDup (flat_map f m).
Proof.
  induction m as [|x m IH]; intros Hnd Hf Hh; [constructor|].
  inversion Hnd as [|? ? Hnx Hnd']; subst. cbn [flat_map].
  apply NoDup_app_intro.
  - apply Hf. left. reflexivity.
  - apply IH; [exact Hnd'| |exact Hh]. intros y Hy. apply Hf. right. exact Hy.
  - intros s Hs Hs'. apply in_flat_map in Hs'. destruct Hs' as [y [Hy Hsy]].
    apply Hh in Hs. apply Hh in Hsy. rewrite Hs in Hsy. inversion Hsy; subst. contradiction.
Qed.

Lemma orderings_NoDup k (l : list nat) : NoDup l -> length l = k -> NoDup (orderings k l).
Proof.
  revert l; induction k as [|k IH]; intros l Hnd Hlen.
  - cbn. constructor; [intros []|constructor].
  - destruct l as [|a l']; [discriminate|]. cbn [orderings].
    apply NoDup_flat_map_heads; [exact Hnd| |].
    + intros x Hx. apply NoDup_map_cons, IH.
      * apply remove_NoDup, Hnd.
      * rewrite remove_length_nodup by assumption. lia.
    + intros x s Hs. apply in_map_iff in Hs. destruct Hs as [s' [<- _]]. reflexivity.
Qed.

(* the three facts together *)
Theorem orderings_spec (l : list nat) : NoDup l ->
  NoDup (orderings (length l) l) /\
  (forall s, In s (orderings (length l) l) <-> Permutation s l) /\
  length (orderings (length l) l) = fact (length l).
Proof.
  intros Hnd. split; [|split].
  - apply orderings_NoDup; [exact Hnd|reflexivity].
  - intros s. apply orderings_perm; [exact Hnd|reflexivity].
  - apply orderings_length; [exact Hnd|reflexivity].
Qed.

(* J(full) as the sum over all E! orderings *)
From Coq Require Import ZArith NArith.
From MT Require Import Model.Scalar Model.Graph Model.Table Proofs.OrdField Proofs.TableProofs.

Lemma edges_of_full E : edges_of E (N.ones (N.of_nat E)) = seq 0 E.
Proof.
  unfold edges_of. apply forallb_filter_id || idtac.
  rewrite <- (filter_ext_in (fun _ => true)).
  - induction (seq 0 E) as [|x l IH]; [reflexivity|]. cbn. rewrite IH. reflexivity.
  - intros e He. apply in_seq in He. unfold has_edge. symmetry. apply N.ones_spec_low. lia.
Qed.

Section JFull.
Context {C : Type} (SC : Scalar C C) (gam : C -> C) (OF : OrdField SC).
Variables (tg : tgraph C) (D : nat) (t : table C).
Hypothesis Hb : generate_from_tropical SC gam tg D = BuildOk t.

Lemma J_full_orderings :
  let E := length (tg_edges tg) in
  let full := N.ones (N.of_nat E) in
  let all := seq 0 E in
  let perms := orderings E all in
  (NoDup perms /\ (forall s, In s perms <-> Permutation s all) /\ length perms = fact E) /\
  t_j (nth (N.to_nat full) (tb_entries t) (dentry SC)) =
    fsum_from SC (s_zero SC) (map (chain_prod SC t full) perms).
Proof.
  cbv zeta. split.
  - pose proof (orderings_spec (seq 0 (length (tg_edges tg))) (seq_NoDup _ _)) as H.
    rewrite seq_length in H. exact H.
  - pose proof (J_orderings SC gam OF tg D t Hb (N.ones (N.of_nat (length (tg_edges tg))))) as H.
    rewrite edges_of_full, seq_length in H. apply H.
    rewrite N.ones_equiv. apply N.lt_pred_l, N.pow_nonzero. discriminate.
Qed.

End JFull.
