(* Proofs/MatrixFloat.v -- C16: which outcome decompose_for_tropical returns (every scalar
   type) and, at binary64, that NaN cannot pass the stability test. *)
From Coq Require Import ZArith List Bool Lia Arith Floats.
From MT Require Import Model.Scalar Model.F64 Model.Matrix.
Import ListNotations.
Local Open Scope nat_scope.

(* ---------- outcome, for every scalar type ---------- *)
Section Outcome.
Context {C T : Type} (S : Scalar C T).

Definition zero_det_test (n : nat) (m : list T) : bool :=
  let dq := det_q_of S n (cholesky S n m) in
  s_eqb S dq (s_zero S) || s_eqb S (s_mul S dq dq) (s_zero S).

Lemma decompose_zerodet_iff n m st : n <> 0 ->
  (decompose_for_tropical S n m st = Ok (inl ZeroDet) <-> zero_det_test n m = true).
Proof.
  intros Hn. unfold decompose_for_tropical, zero_det_test.
  destruct (Nat.eqb_spec n 0) as [|_]; [contradiction|]. cbv zeta.
  destruct (s_eqb S (det_q_of S n (cholesky S n m)) (s_zero S) || _) eqn:Hz.
  - split; reflexivity.
  - split; [|discriminate]. destruct st as [tol|]; [|discriminate].
    destruct (negb _); discriminate.
Qed.

(* an Ok result: the zero test failed on both the pivot product and the returned
   determinant, the four fields are [decomp_fields], and with the test enabled the error
   passed "error <= tolerance" *)
Lemma decompose_ok n m st r :
  decompose_for_tropical S n m st = Ok (inr r) ->
  zero_det_test n m = false /\ r = decomp_fields S n m /\
  (forall tol, st = Some tol -> s_leb S (stability_error S n (d_inverse r) m) (s_of_c S tol) = true).
Proof.
  unfold decompose_for_tropical, zero_det_test. destruct (Nat.eqb n 0); [discriminate|]. cbv zeta.
  destruct (s_eqb S (det_q_of S n (cholesky S n m)) (s_zero S) || _); [discriminate|].
  generalize (decomp_fields S n m). intros r0.
  destruct st as [tol|].
  - destruct (s_leb S (stability_error S n (d_inverse r0) m) (s_of_c S tol)) eqn:Hl; cbn [negb]; [|discriminate].
    intros H; inversion H; subst r0. split; [reflexivity|split; [reflexivity|]].
    intros tol' Ht; inversion Ht; subst. exact Hl.
  - intros H; inversion H; subst r0. split; [reflexivity|split; [reflexivity|]]. intros tol Ht; discriminate.
Qed.

Lemma decomp_fields_eq n m :
  let q := cholesky S n m in
  let dq := det_q_of S n q in
  let idg := inv_diag_of S n q in
  let iq := inverse_q_of S n (n_sum_of S n (n_matrix_of S n q idg)) idg in
  d_determinant (decomp_fields S n m) = s_mul S dq dq /\
  d_q_transposed (decomp_fields S n m) = mtranspose S n q /\
  d_q_transposed_inverse (decomp_fields S n m) = mtranspose S n iq /\
  d_inverse (decomp_fields S n m) = mmul S n (mtranspose S n iq) iq.
Proof. cbv zeta. unfold decomp_fields. cbn [d_determinant d_q_transposed d_q_transposed_inverse d_inverse]. repeat split. Qed.

Lemma decompose_unstable n m st :
  decompose_for_tropical S n m st = Ok (inl Unstable) ->
  exists tol, st = Some tol /\
    s_leb S (stability_error S n (d_inverse (decomp_fields S n m)) m) (s_of_c S tol) = false.
Proof.
  unfold decompose_for_tropical. destruct (Nat.eqb n 0); [discriminate|]. cbv zeta.
  destruct (_ || _); [discriminate|].
  destruct st as [tol|]; [|discriminate].
  destruct (s_leb S _ (s_of_c S tol)) eqn:Hl; cbn [negb]; [discriminate|].
  intros _. exists tol. split; [reflexivity|exact Hl].
Qed.

End Outcome.

(* ---------- NaN at binary64 ---------- *)
Definition is_nan (x : float) : Prop := Prim2SF x = S754_nan.

Lemma nan_add_l x y : is_nan x -> is_nan (x + y)%float.
Proof. unfold is_nan. intros H. rewrite add_spec, H. reflexivity. Qed.
Lemma nan_add_r x y : is_nan y -> is_nan (x + y)%float.
Proof. unfold is_nan. intros H. rewrite add_spec, H. destruct (Prim2SF x); reflexivity. Qed.
Lemma nan_sub_l x y : is_nan x -> is_nan (x - y)%float.
Proof. unfold is_nan. intros H. rewrite sub_spec, H. reflexivity. Qed.
Lemma nan_mul_l x y : is_nan x -> is_nan (x * y)%float.
Proof. unfold is_nan. intros H. rewrite mul_spec, H. reflexivity. Qed.
Lemma nan_mul_r x y : is_nan y -> is_nan (x * y)%float.
Proof. unfold is_nan. intros H. rewrite mul_spec, H. destruct (Prim2SF x); reflexivity. Qed.
Lemma nan_sqrt x : is_nan x -> is_nan (sqrt x).
Proof. unfold is_nan. intros H. rewrite sqrt_spec, H. reflexivity. Qed.
Lemma leb_not_nan x y : (x <=? y)%float = true -> ~ is_nan x /\ ~ is_nan y.
Proof.
  unfold is_nan. rewrite leb_spec. unfold SFleb, SFcompare.
  destruct (Prim2SF x), (Prim2SF y); try discriminate; intros _; split; discriminate.
Qed.

Section NanFolds.
Variable tb : oracle.
Notation S := (F64 tb).

(* a sum accumulated by fold_left is NaN as soon as the accumulator or one term is *)
Lemma fold_add_nan_acc {A} (f : A -> float) l acc :
  is_nan acc -> is_nan (fold_left (fun a k => s_add S a (f k)) l acc).
Proof.
  revert acc; induction l as [|k l IH]; intros acc H; [exact H|].
  cbn [fold_left]. apply IH. apply nan_add_l, H.
Qed.

Lemma fold_add_nan_term {A} (f : A -> float) l acc k :
  In k l -> is_nan (f k) -> is_nan (fold_left (fun a k => s_add S a (f k)) l acc).
Proof.
  revert acc; induction l as [|x l IH]; intros acc Hin Hn; [destruct Hin|].
  cbn [fold_left]. destruct Hin as [->|Hin].
  - apply fold_add_nan_acc. apply nan_add_r, Hn.
  - apply IH; assumption.
Qed.

Lemma nth_tabulate {T} (n : nat) (f : nat -> nat -> T) (d : T) i j : i < n -> j < n ->
  nth (i * n + j) (tabulate n f) d = f i j.
Proof.
  intros Hi Hj. unfold tabulate.
  assert (Hgen : forall (rows : list nat) k, k < length rows ->
    nth (k * n + j) (flat_map (fun i => map (fun j => f i j) (seq 0 n)) rows) d = f (nth k rows 0) j).
  { induction rows as [|r rows IH]; intros k Hk; [cbn in Hk; lia|].
    cbn [flat_map]. destruct k as [|k].
    - cbn [nth Nat.mul Nat.add]. rewrite app_nth1 by (rewrite map_length, seq_length; exact Hj).
      rewrite (nth_indep _ d (f r 0)) by (rewrite map_length, seq_length; exact Hj).
      rewrite (map_nth (fun j => f r j) (seq 0 n) 0 j). rewrite seq_nth by exact Hj. reflexivity.
    - rewrite app_nth2 by (rewrite map_length, seq_length; lia).
      rewrite map_length, seq_length. replace (Datatypes.S k * n + j - n) with (k * n + j) by lia.
      cbn [nth]. apply IH. cbn in Hk. lia. }
  rewrite (Hgen (seq 0 n) i) by (rewrite seq_length; exact Hi).
  rewrite seq_nth by exact Hi. reflexivity.
Qed.

Lemma mget_tabulate n (f : nat -> nat -> float) i j : i < n -> j < n -> mget S n (tabulate n f) i j = f i j.
Proof. intros Hi Hj. unfold mget. apply nth_tabulate; assumption. Qed.

(* a NaN entry of the left factor poisons its whole row of the product *)
Lemma mmul_nan n a b r k c : r < n -> k < n -> c < n ->
  is_nan (mget S n a r k) -> is_nan (mget S n (mmul S n a b) r c).
Proof.
  intros Hr Hk Hc Hn. unfold mmul. rewrite mget_tabulate by assumption.
  apply (fold_add_nan_term (fun k => s_mul S (mget S n a r k) (mget S n b k c)) (seq 0 n) _ k).
  - apply in_seq. lia.
  - apply nan_mul_l, Hn.
Qed.

Lemma msub_nan n a b r c : r < n -> c < n ->
  is_nan (mget S n a r c) -> is_nan (mget S n (msub S n a b) r c).
Proof.
  intros Hr Hc Hn. unfold msub. rewrite mget_tabulate by assumption. apply nan_sub_l, Hn.
Qed.

Lemma l21_nan n a i j : i < n -> j < n -> is_nan (mget S n a i j) -> is_nan (l21_norm S n a).
Proof.
  intros Hi Hj Hn. unfold l21_norm.
  apply (fold_add_nan_term
    (fun j => s_sqrt S (fold_left (fun vn i => s_add S vn (s_mul S (mget S n a i j) (mget S n a i j))) (seq 0 n) (s_zero S)))
    (seq 0 n) _ j).
  - apply in_seq. lia.
  - apply nan_sqrt.
    apply (fold_add_nan_term (fun i => s_mul S (mget S n a i j) (mget S n a i j)) (seq 0 n) _ i).
    + apply in_seq. lia.
    + apply nan_mul_l, Hn.
Qed.

(* C16: with the stability test on, an Ok result has a non-NaN error and an inverse free of NaN *)
Theorem stability_rejects_nan n m tol r :
  decompose_for_tropical S n m (Some tol) = Ok (inr r) ->
  ~ is_nan (stability_error S n (d_inverse r) m) /\
  forall i k, i < n -> k < n -> ~ is_nan (mget S n (d_inverse r) i k).
Proof.
  intros H. pose proof (decompose_ok S n m (Some tol) r H) as Hok.
  destruct Hok as [_ [_ Hl]]. specialize (Hl tol eq_refl).
  change (PrimFloat.leb (stability_error S n (d_inverse r) m) tol = true) in Hl.
  apply leb_not_nan in Hl. destruct Hl as [Hl _].
  split; [exact Hl|]. intros i k Hi Hk Hn. apply Hl.
  unfold stability_error. apply (l21_nan n _ i 0); [exact Hi|lia|].
  apply msub_nan; [exact Hi|lia|]. apply (mmul_nan n _ _ i k 0); [exact Hi|exact Hk|lia|exact Hn].
Qed.

End NanFolds.
