(* Proofs/SerdeProofs.v -- C18: deserialising the serialised sampler gives it back. *)
From Coq Require Import ZArith NArith List Bool String Lia.
From MT Require Import Model.Scalar Model.Graph Model.Table Model.Api Model.Serde.
Import ListNotations.

Section Serde.
Context {C : Type}.

Lemma sequence_map {A B} (f : B -> option A) (g : A -> B) (l : list A) :
  (forall x, f (g x) = Some x) -> sequence (map f (map g l)) = Some l.
Proof.
  intros H. induction l as [|x l IH]; [reflexivity|]. cbn. rewrite H, IH. reflexivity.
Qed.

Lemma sequence_map_in {A B X} (f : B -> option A) (g : X -> B) (h : X -> A) (l : list X) :
  (forall x, f (g x) = Some (h x)) -> sequence (map f (map g l)) = Some (map h l).
Proof.
  intros H. induction l as [|x l IH]; [reflexivity|]. cbn. rewrite H, IH. reflexivity.
Qed.

Lemma de_ser_edge (ie : nat * edge C) : de_edge (ser_edge ie) = Some (snd ie).
Proof. destruct ie as [i [l r w m]]. reflexivity. Qed.

Lemma map_snd_combine_seq {A} (l : list A) k : map snd (combine (seq k (List.length l)) l) = l.
Proof.
  revert k; induction l as [|x l IH]; intros k; [reflexivity|]. cbn. rewrite IH. reflexivity.
Qed.

Lemma de_ser_tgraph (tg : tgraph C) : de_tgraph (ser_tgraph tg) = Some tg.
Proof.
  destruct tg as [d es nm xs nl]. unfold ser_tgraph, de_tgraph. cbn [tg_dod tg_edges tg_nmassive tg_ext tg_loops].
  unfold de_seq.
  rewrite (sequence_map_in de_edge ser_edge snd) by apply de_ser_edge.
  rewrite map_snd_combine_seq.
  rewrite (sequence_map de_u SvU) by reflexivity.
  rewrite !Nat2N.id. reflexivity.
Qed.

Lemma de_ser_entry (e : entry C) : de_entry (ser_entry e) = Some e.
Proof. destruct e as [l b j d]. unfold ser_entry, de_entry. cbn. rewrite Nat2N.id. reflexivity. Qed.

Lemma de_ser_table (t : table C) : de_table (ser_table t) = Some t.
Proof.
  destruct t as [es dm tg f]. unfold ser_table, de_table. cbn [tb_entries tb_dim tb_graph tb_factor].
  unfold de_seq. rewrite (sequence_map de_entry ser_entry) by apply de_ser_entry.
  rewrite de_ser_tgraph, Nat2N.id. reflexivity.
Qed.

Theorem de_ser_sampler (s : sampler C) : de_sampler (ser_sampler s) = Some s.
Proof.
  destruct s as [sg t]. unfold ser_sampler, de_sampler. cbn [sg_signature sg_table].
  unfold de_seq at 1.
  rewrite (sequence_map (de_seq de_i) (fun row => SvSeq (map SvI row))).
  - rewrite de_ser_table. reflexivity.
  - intros row. unfold de_seq. apply sequence_map. reflexivity.
Qed.

End Serde.
