(* Proofs/OrdField.v -- what "the scalar type is an ordered field" means for a
   dictionary [S : Scalar C T], and the algebra the exact-field theorems use.
   The laws are hypotheses of a record (never axioms); instances for [Qc] and
   [R] are in Proofs/Instances.v. *)
From Coq Require Import ZArith List Bool Lia Field Ring Setoid Morphisms.
From MT Require Import Model.Scalar.
Import ListNotations.

Section Laws.
Context {C T : Type} (S : Scalar C T).

Definition flt (x y : T) : Prop := s_ltb S x y = true.
Definition fle (x y : T) : Prop := s_leb S x y = true.

Record OrdField : Prop := mkOrdField {
  of_field : field_theory (s_zero S) (s_one S) (s_add S) (s_mul S) (s_sub S) (s_neg S)
                          (s_div S) (s_inv S) (@eq T);
  of_lt_irrefl : forall x, ~ flt x x;
  of_lt_trans : forall x y z, flt x y -> flt y z -> flt x z;
  of_lt_total : forall x y, flt x y \/ x = y \/ flt y x;
  of_le_iff : forall x y, fle x y <-> flt x y \/ x = y;
  of_add_lt : forall x y z, flt x y -> flt (s_add S x z) (s_add S y z);
  of_mul_pos : forall x y, flt (s_zero S) x -> flt (s_zero S) y -> flt (s_zero S) (s_mul S x y);
  of_eqb_iff : forall x y, s_eqb S x y = true <-> x = y;
  of_of_Z_0 : s_of_Z S 0 = s_zero S;
  of_of_Z_succ : forall n, (0 <= n)%Z -> s_of_Z S (n + 1) = s_add S (s_of_Z S n) (s_one S);
  of_of_Z_neg : forall n, s_of_Z S (- n) = s_neg S (s_of_Z S n)
}.

End Laws.

Section Algebra.
Context {C T : Type} (S : Scalar C T) (OF : OrdField S).

Notation "0" := (s_zero S).
Notation "1" := (s_one S).
Infix "+" := (s_add S).
Infix "*" := (s_mul S).
Infix "-" := (s_sub S).
Infix "/" := (s_div S).
Notation "- x" := (s_neg S x).
Notation "x < y" := (flt S x y).
Notation "x <= y" := (fle S x y).

Lemma OF_ring : ring_theory 0 1 (s_add S) (s_mul S) (s_sub S) (s_neg S) (@eq T).
Proof. exact (F_R (of_field S OF)). Qed.

Add Field OFfield : (of_field S OF).

Lemma f_1_neq_0 : 1 <> 0.
Proof. exact (F_1_neq_0 (of_field S OF)). Qed.

Lemma f_add_0_l x : 0 + x = x. Proof. ring. Qed.
Lemma f_add_0_r x : x + 0 = x. Proof. ring. Qed.
Lemma f_neg_0 : - 0 = 0. Proof. ring. Qed.
Lemma f_mul_1_l x : 1 * x = x. Proof. ring. Qed.
Lemma f_mul_1_r x : x * 1 = x. Proof. ring. Qed.
Lemma f_mul_0_l x : 0 * x = 0. Proof. ring. Qed.
Lemma f_add_comm x y : x + y = y + x. Proof. ring. Qed.
Lemma f_add_assoc x y z : x + (y + z) = x + y + z. Proof. ring. Qed.
Lemma f_mul_comm x y : x * y = y * x. Proof. ring. Qed.
Lemma f_mul_assoc x y z : x * (y * z) = x * y * z. Proof. ring. Qed.
Lemma f_sub_def x y : x - y = x + - y. Proof. ring. Qed.
Lemma f_div_def x y : x / y = x * s_inv S y.
Proof. exact (Fdiv_def (of_field S OF) x y). Qed.
Lemma f_inv_l x : x <> 0 -> s_inv S x * x = 1.
Proof. exact (Finv_l (of_field S OF) x). Qed.
Lemma f_div_same x : x <> 0 -> x / x = 1.
Proof. intros H. field. exact H. Qed.
Lemma f_div_1 x : x / 1 = x.
Proof. field. exact f_1_neq_0. Qed.

(* order *)
Lemma f_lt_neq x y : x < y -> x <> y.
Proof. intros H ->. exact (of_lt_irrefl S OF y H). Qed.

Lemma f_lt_asym x y : x < y -> ~ y < x.
Proof. intros H1 H2. exact (of_lt_irrefl S OF x (of_lt_trans S OF _ _ _ H1 H2)). Qed.

Lemma f_le_refl x : x <= x.
Proof. apply (of_le_iff S OF). right; reflexivity. Qed.

Lemma f_lt_le x y : x < y -> x <= y.
Proof. intros H. apply (of_le_iff S OF). left; exact H. Qed.

Lemma f_not_le_lt x y : ~ x <= y -> y < x.
Proof.
  intros H. destruct (of_lt_total S OF x y) as [Hl|[He|Hg]]; [|exfalso|exact Hg].
  - exfalso. apply H, f_lt_le, Hl.
  - apply H. subst. apply f_le_refl.
Qed.

Lemma f_leb_false_lt x y : s_leb S x y = false -> y < x.
Proof. intros H. apply f_not_le_lt. unfold fle. rewrite H. discriminate. Qed.

Lemma f_le_not_lt x y : x <= y -> ~ y < x.
Proof.
  intros H Hl. apply (of_le_iff S OF) in H. destruct H as [H|H].
  - exact (f_lt_asym _ _ H Hl).
  - subst. exact (of_lt_irrefl S OF _ Hl).
Qed.

Lemma f_le_trans x y z : x <= y -> y <= z -> x <= z.
Proof.
  intros H1 H2. apply (of_le_iff S OF) in H1. apply (of_le_iff S OF) in H2. apply (of_le_iff S OF).
  destruct H1 as [H1| ->]; destruct H2 as [H2| ->]; auto.
  left. exact (of_lt_trans S OF _ _ _ H1 H2).
Qed.

Lemma f_lt_le_trans x y z : x < y -> y <= z -> x < z.
Proof.
  intros H1 H2. apply (of_le_iff S OF) in H2. destruct H2 as [H2| ->]; auto.
  exact (of_lt_trans S OF _ _ _ H1 H2).
Qed.

Lemma f_le_lt_trans x y z : x <= y -> y < z -> x < z.
Proof.
  intros H1 H2. apply (of_le_iff S OF) in H1. destruct H1 as [H1| ->]; auto.
  exact (of_lt_trans S OF _ _ _ H1 H2).
Qed.

Lemma f_add_lt_r x y z : x < y -> x + z < y + z.
Proof. apply (of_add_lt S OF). Qed.

Lemma f_add_lt_l x y z : x < y -> z + x < z + y.
Proof. intros H. rewrite (f_add_comm z x), (f_add_comm z y). apply f_add_lt_r, H. Qed.

Lemma f_add_pos x y : 0 < x -> 0 < y -> 0 < x + y.
Proof.
  intros Hx Hy. apply (of_lt_trans S OF _ (0 + y)).
  - rewrite f_add_0_l. exact Hy.
  - apply f_add_lt_r, Hx.
Qed.

Lemma f_add_nonneg_pos x y : 0 <= x -> 0 < y -> 0 < x + y.
Proof.
  intros Hx Hy. apply (of_le_iff S OF) in Hx. destruct Hx as [Hx| <-].
  - apply f_add_pos; assumption.
  - rewrite f_add_0_l. exact Hy.
Qed.

Lemma f_add_le_mono x y z : x <= y -> x + z <= y + z.
Proof.
  intros H. apply (of_le_iff S OF) in H. apply (of_le_iff S OF). destruct H as [H| ->]; auto.
  left. apply f_add_lt_r, H.
Qed.

Lemma f_add_nonneg x y : 0 <= x -> 0 <= y -> 0 <= x + y.
Proof.
  intros Hx Hy. apply (f_le_trans _ (0 + y)).
  - rewrite f_add_0_l. exact Hy.
  - apply f_add_le_mono, Hx.
Qed.

Lemma f_lt_0_1 : 0 < 1.
Proof.
  destruct (of_lt_total S OF 0 1) as [H|[H|H]]; [exact H| |].
  - exfalso. apply f_1_neq_0. symmetry. exact H.
  - (* 1 < 0 -> 0 < -1 -> 0 < (-1)*(-1) = 1 *)
    assert (Hn : 0 < - (1)).
    { replace 0 with (1 + - (1)) by ring. replace (- (1)) with (0 + - (1)) at 2 by ring.
      apply f_add_lt_r, H. }
    pose proof (of_mul_pos S OF _ _ Hn Hn) as Hp.
    replace (- (1) * - (1)) with 1 in Hp by ring. exact Hp.
Qed.

Lemma f_neg_pos x : x < 0 -> 0 < - x.
Proof.
  intros H. replace 0 with (x + - x) by ring. replace (- x) with (0 + - x) at 2 by ring.
  apply f_add_lt_r, H.
Qed.

Lemma f_inv_pos x : 0 < x -> 0 < s_inv S x.
Proof.
  intros Hx. assert (Hne : x <> 0) by (apply not_eq_sym, f_lt_neq, Hx).
  destruct (of_lt_total S OF 0 (s_inv S x)) as [H|[H|H]]; [exact H| |].
  - exfalso. pose proof (f_inv_l x Hne) as Hi. rewrite <- H in Hi.
    rewrite f_mul_0_l in Hi. apply f_1_neq_0. symmetry. exact Hi.
  - exfalso. pose proof (of_mul_pos S OF _ _ (f_neg_pos _ H) Hx) as Hp.
    replace (- s_inv S x * x) with (- (s_inv S x * x)) in Hp by ring.
    rewrite (f_inv_l x Hne) in Hp.
    apply (f_lt_asym _ _ Hp).
    (* -1 < 0 *)
    replace 0 with (1 + - (1)) by ring. replace (- (1)) with (0 + - (1)) at 1 by ring.
    apply f_add_lt_r, f_lt_0_1.
Qed.

Lemma f_div_pos x y : 0 < x -> 0 < y -> 0 < x / y.
Proof.
  intros Hx Hy. rewrite f_div_def. apply (of_mul_pos S OF); [exact Hx|apply f_inv_pos, Hy].
Qed.

Lemma f_mul_pos x y : 0 < x -> 0 < y -> 0 < x * y.
Proof. apply (of_mul_pos S OF). Qed.

(* sums: fold_left from an arbitrary start *)
Definition fsum_from (a : T) (l : list T) : T := fold_left (s_add S) l a.

Lemma fsum_from_shift a l : fsum_from a l = a + fsum_from 0 l.
Proof.
  unfold fsum_from. revert a; induction l as [|x l IH]; intros a; simpl.
  - ring.
  - rewrite IH, (IH (0 + x)). ring.
Qed.

Lemma fsum_cons a x l : fsum_from a (x :: l) = x + fsum_from a l.
Proof.
  rewrite (fsum_from_shift a (x :: l)), (fsum_from_shift a l).
  unfold fsum_from at 1. simpl. fold (fsum_from (0 + x) l). rewrite (fsum_from_shift (0 + x) l). ring.
Qed.

Lemma fsum_app a l1 l2 : fsum_from a (l1 ++ l2) = fsum_from a l1 + fsum_from 0 l2.
Proof.
  unfold fsum_from at 1 2. rewrite fold_left_app. fold (fsum_from (fold_left (s_add S) l1 a) l2).
  rewrite fsum_from_shift. reflexivity.
Qed.

Lemma fsum_pos a l : 0 <= a -> l <> [] -> (forall x, In x l -> 0 < x) -> 0 < fsum_from a l.
Proof.
  intros Ha Hne Hpos. destruct l as [|x l]; [congruence|]. clear Hne.
  revert a x Ha Hpos; induction l as [|y l IH]; intros a x Ha Hpos.
  - unfold fsum_from. simpl. apply f_add_nonneg_pos; [exact Ha|apply Hpos; left; reflexivity].
  - unfold fsum_from. cbn [fold_left]. apply (IH (a + x) y).
    + apply f_lt_le, f_add_nonneg_pos; [exact Ha|apply Hpos; left; reflexivity].
    + intros z Hz. apply Hpos. right. exact Hz.
Qed.

Lemma fsum_scale_div a l c : c <> 0 ->
  fsum_from (a / c) (map (fun x => x / c) l) = fsum_from a l / c.
Proof.
  intros Hc. unfold fsum_from. revert a; induction l as [|x l IH]; intros a; simpl.
  - reflexivity.
  - replace (a / c + x / c) with ((a + x) / c) by (field; exact Hc). apply IH.
Qed.

Lemma fsum_ext a (f g : nat -> T) l : (forall e, In e l -> f e = g e) ->
  fsum_from a (map f l) = fsum_from a (map g l).
Proof. intros H. f_equal. apply map_ext_in, H. Qed.

(* products *)
Definition fprod_from (a : T) (l : list T) : T := fold_left (s_mul S) l a.

Lemma fprod_from_shift a l : fprod_from a l = a * fprod_from 1 l.
Proof.
  unfold fprod_from. revert a; induction l as [|x l IH]; intros a; simpl.
  - ring.
  - rewrite IH, (IH (1 * x)). ring.
Qed.

Lemma fprod_cons a x l : fprod_from a (x :: l) = x * fprod_from a l.
Proof.
  rewrite (fprod_from_shift a (x :: l)), (fprod_from_shift a l).
  unfold fprod_from at 1. simpl. fold (fprod_from (1 * x) l). rewrite (fprod_from_shift (1 * x) l). ring.
Qed.

Lemma fprod_pos a l : 0 < a -> (forall x, In x l -> 0 < x) -> 0 < fprod_from a l.
Proof.
  unfold fprod_from. revert a; induction l as [|x l IH]; intros a Ha Hpos; simpl; [exact Ha|].
  apply IH; [apply f_mul_pos; [exact Ha|apply Hpos; left; reflexivity]|].
  intros y Hy. apply Hpos. right. exact Hy.
Qed.

End Algebra.
