(* Proofs/LMatrix.v -- compute_l_matrix (C08): entries and symmetry, for every scalar type. *)
From Coq Require Import ZArith List Bool Lia Arith.
From MT Require Import Model.Scalar Model.Matrix Model.Sampling Proofs.MatrixFloat.
Import ListNotations.
Local Open Scope nat_scope.

Section LMatrix.
Context {C T : Type} (S : Scalar C T).

Lemma mget_tab n (f : nat -> nat -> T) i j : i < n -> j < n -> mget S n (tabulate n f) i j = f i j.
Proof. intros Hi Hj. unfold mget. apply nth_tabulate; assumption. Qed.

Definition l_entry (x : list T) (sig : list (list Z)) (a b : nat) : T :=
  fold_left (fun acc e => s_add S acc (s_mul S (s_of_Z S (sig_at sig e a * sig_at sig e b)) (nth e x (s_zero S))))
            (seq 0 (length sig)) (s_zero S).

(* entry (i,j) accumulates x_e * s_ei * s_ej over the edges in index order, from zero *)
Lemma l_matrix_entry x sig L i j : i < L -> j < L ->
  mget S L (compute_l_matrix S x sig L) i j = l_entry x sig (Nat.min i j) (Nat.max i j).
Proof. intros Hi Hj. unfold compute_l_matrix. rewrite mget_tab by assumption. reflexivity. Qed.

(* symmetric bit for bit: (i,j) and (j,i) are the same accumulation *)
Lemma l_matrix_symmetric x sig L i j : i < L -> j < L ->
  mget S L (compute_l_matrix S x sig L) i j = mget S L (compute_l_matrix S x sig L) j i.
Proof.
  intros Hi Hj. rewrite !l_matrix_entry by assumption.
  rewrite (Nat.min_comm j i), (Nat.max_comm j i). reflexivity.
Qed.

Lemma tabulate_length n (f : nat -> nat -> T) : length (tabulate n f) = n * n.
Proof.
  unfold tabulate.
  assert (H : forall rows, length (flat_map (fun i => map (fun j => f i j) (seq 0 n)) rows) = length rows * n).
  { induction rows as [|r rows IH]; [reflexivity|]. cbn [flat_map]. rewrite app_length, map_length, seq_length, IH. cbn. lia. }
  rewrite H, seq_length. reflexivity.
Qed.

Lemma l_matrix_length x sig L : length (compute_l_matrix S x sig L) = L * L.
Proof. apply tabulate_length. Qed.

End LMatrix.
