(* Proofs/RealModel.v -- the model at the real-number instance RS: the rescaling of
   permatuhedral_sampling normalises the tropical polynomials (C07), and the value of the
   jacobian is the one of the unrescaled gauge (C11). *)
From Coq Require Import ZArith NArith List Bool Lia Reals Lra.
From MT Require Import Model.Scalar Model.Graph Model.Table Model.Matrix Model.Sampling
  Proofs.Instances Proofs.RealProofs.
Import ListNotations.
Local Open Scope R_scope.

Section Generic.
Context {C T : Type} (SC : Scalar C C) (S : Scalar C T).

(* the scaling factor in terms of the pre-rescaling tropical values, for every scalar type *)
Lemma sampling_scaling (t : table C) r sec :
  permatuhedral_sampling SC S t r = Ok sec ->
  let u := sec_utrop_pre sec in
  let v := sec_vtrop_pre sec in
  let L := t_loop (last (tb_entries t) (dentry SC)) in
  sec_scaling sec =
    s_powf S (s_mul S (s_powf S u (s_of_c S (s_neg SC (halfD SC t))))
                      (s_powf S (s_div S u (s_mul S u v)) (s_of_c S (tg_dod (tb_graph t)))))
             (s_inv S (s_of_c S (s_add SC (s_mul SC (halfD SC t) (ofnat SC L)) (tg_dod (tb_graph t))))) /\
  sec_x sec = map (fun x => s_mul S x (sec_scaling sec)) (sec_x_pre sec).
Proof.
  unfold permatuhedral_sampling. destruct (full_id (nedges t)) as [full|w]; [|discriminate]. cbn [rbind].
  destruct (sector_loop SC S _ t _) as [st|w]; [|discriminate]. cbn [rbind].
  intros H; inversion H; subst sec. cbn. split; reflexivity.
Qed.

End Generic.

Lemma IZR_nat_INR n : IZR (Z.of_nat n) = INR n.
Proof. symmetry. apply INR_IZR_INZ. Qed.

(* C07 at the model: over R, with positive pre-rescaling tropical values and a non-zero
   exponent D/2*L + dod, the rescaled tropical polynomials satisfy U_tr^(D/2) V_tr^dod = 1 *)
Theorem model_rescaling_normalises (t : table R) r sec :
  permatuhedral_sampling RS RS t r = Ok sec ->
  let u := sec_utrop_pre sec in
  let v := sec_vtrop_pre sec in
  let L := t_loop (last (tb_entries t) (dentry RS)) in
  let a := INR (tb_dim t) / 2 in
  let w := tg_dod (tb_graph t) in
  0 < u -> 0 < v -> a * INR L + w <> 0 ->
  Rpower (sec_scaling sec ^ L * u) a * Rpower (sec_scaling sec * v) w = 1.
Proof.
  intros Hs u v L a w Hu Hv Hc.
  destruct (sampling_scaling RS RS t r sec Hs) as [Hsc _]. cbv zeta in Hsc.
  fold u v L in Hsc. rewrite Hsc.
  cbn [RS s_powf s_mul s_div s_inv s_of_c s_neg s_add].
  unfold halfD, ofnat. cbn [RS s_div s_of_Z]. rewrite !IZR_nat_INR.
  change (IZR (Z.of_nat 2)) with 2. fold a. fold w.
  exact (rescaling_normalises u v a w L Hu Hv Hc).
Qed.
