(* Proofs/Components.v -- C03: the model's [components] is a true component system of the
   edge subset: a partition of the subset into classes that are connected (by the relation
   "share a vertex") and pairwise non-adjacent. *)
From Coq Require Import ZArith NArith List Bool Lia Arith Permutation Relations.
From MT Require Import Model.Scalar Model.Graph.
Import ListNotations.
Local Open Scope nat_scope.

Section Comp.
Context {C : Type}.
Notation ie := (ie C).

Lemma contains_vertex_iff (ed : edge C) v : contains_vertex ed v = true <-> e_left ed = v \/ e_right ed = v.
Proof. unfold contains_vertex. rewrite orb_true_iff, !N.eqb_eq. tauto. Qed.

(* two edges are neighbours iff they share an endpoint; symmetric *)
Lemma neighbours_iff (e1 e2 : edge C) :
  neighbours e1 e2 = true <->
  e_left e1 = e_left e2 \/ e_right e1 = e_left e2 \/ e_left e1 = e_right e2 \/ e_right e1 = e_right e2.
Proof. unfold neighbours. rewrite orb_true_iff, !contains_vertex_iff. tauto. Qed.

Lemma nb_sym (a b : ie) : nb a b = nb b a.
Proof.
  unfold nb. apply eq_true_iff_eq. rewrite !neighbours_iff.
  split; intros [H|[H|[H|H]]]; auto.
Qed.

(* adjacency to a set *)
Definition adj_to (cur : list ie) (f : ie) : bool := existsb (fun e => nb e f) cur.

Lemma adj_to_iff cur f : adj_to cur f = true <-> exists e, In e cur /\ nb e f = true.
Proof. unfold adj_to. apply existsb_exists. Qed.

(* connected within a set S: reflexive-transitive closure of "both in S and neighbours" *)
Definition step (S : list ie) (a b : ie) : Prop := In a S /\ In b S /\ nb a b = true.
Definition conn (S : list ie) : relation ie := clos_refl_trans ie (step S).

Lemma conn_incl S S' a b : incl S S' -> conn S a b -> conn S' a b.
Proof.
  intros Hi H. induction H as [a b [H1 [H2 H3]]| |a b c _ IH1 _ IH2].
  - apply rt_step. repeat split; auto.
  - apply rt_refl.
  - eapply rt_trans; eauto.
Qed.

Lemma conn_sym S a b : conn S a b -> conn S b a.
Proof.
  intros H. induction H as [a b [H1 [H2 H3]]| |a b c _ IH1 _ IH2].
  - apply rt_step. repeat split; auto. rewrite nb_sym. exact H3.
  - apply rt_refl.
  - eapply rt_trans; eauto.
Qed.

(* ---------- grow ---------- *)
Lemma partition_perm {A} (f : A -> bool) l l1 l2 : partition f l = (l1, l2) -> Permutation l (l1 ++ l2).
Proof.
  revert l1 l2; induction l as [|x l IH]; intros l1 l2 H; cbn in H.
  - inversion H. constructor.
  - destruct (partition f l) as [a b]. destruct (f x); inversion H; subst.
    + cbn. constructor. apply IH. reflexivity.
    + apply Permutation_cons_app. apply IH. reflexivity.
Qed.

Lemma partition_spec {A} (f : A -> bool) l l1 l2 : partition f l = (l1, l2) ->
  (forall x, In x l1 <-> In x l /\ f x = true) /\ (forall x, In x l2 <-> In x l /\ f x = false).
Proof.
  revert l1 l2; induction l as [|y l IH]; intros l1 l2 H; cbn in H.
  - inversion H. split; intros x; cbn; tauto.
  - destruct (partition f l) as [a b]. destruct (IH a b eq_refl) as [Ha Hb].
    destruct (f y) eqn:Hy; inversion H; subst; split; intros x; cbn; rewrite ?Ha, ?Hb.
    + split; [intros [<-|[H1 H2]]; auto|intros [[<-|H1] H2]; auto].
    + split; [intros [H1 H2]; auto|intros [[<-|H1] H2]; [congruence|auto]].
    + split; [intros [H1 H2]; auto|intros [[<-|H1] H2]; [congruence|auto]].
    + split; [intros [<-|[H1 H2]]; auto|intros [[<-|H1] H2]; auto].
Qed.

Lemma partition_length {A} (f : A -> bool) l l1 l2 : partition f l = (l1, l2) -> length l = length l1 + length l2.
Proof. intros H. apply partition_perm in H. apply Permutation_length in H. rewrite app_length in H. exact H. Qed.

(* what [grow] guarantees *)
Lemma grow_spec fuel (cur rest c rest' : list ie) (S : list ie) :
  grow fuel cur rest = (c, rest') ->
  incl cur S -> incl rest S -> cur <> [] ->
  (forall x, In x cur -> forall y, In y cur -> conn S x y) ->
  Permutation (cur ++ rest) (c ++ rest') /\
  incl cur c /\ c <> [] /\
  (forall x, In x c -> forall y, In y c -> conn S x y) /\
  (length rest <= fuel -> forall f, In f rest' -> adj_to c f = false).
Proof.
  revert cur rest; induction fuel as [|fuel IH]; intros cur rest Hg Hc Hr Hne Hconn; cbn [grow] in Hg.
  - inversion Hg; subst. repeat split; auto using incl_refl.
    intros Hl f Hf. destruct rest' as [|r0 rr]; [destruct Hf|cbn in Hl; lia].
  - destruct (partition (fun f => existsb (fun e => nb e f) cur) rest) as [inn out] eqn:Hp.
    destruct (partition_spec _ _ _ _ Hp) as [Hin Hout].
    destruct inn as [|i0 inn'].
    + inversion Hg; subst. repeat split; auto using incl_refl.
      intros _ f Hf. destruct (adj_to c f) eqn:Ha; [|reflexivity].
      exfalso. assert (Hx : In f []) by (apply Hin; split; [exact Hf|exact Ha]). destruct Hx.
    + set (inn := i0 :: inn') in *.
      assert (Hinn_S : incl inn S) by (intros x Hx; apply Hr; apply Hin in Hx; tauto).
      assert (Hout_S : incl out S) by (intros x Hx; apply Hr; apply Hout in Hx; tauto).
      assert (Hcur' : incl (cur ++ inn) S) by (apply incl_app; assumption).
      assert (Hne' : cur ++ inn <> []) by (destruct cur; [congruence|discriminate]).
      (* every new element is linked to an old one *)
      assert (Hlink : forall x, In x inn -> exists e, In e cur /\ conn S e x).
      { intros x Hx. apply Hin in Hx. destruct Hx as [Hxr Hxa]. apply adj_to_iff in Hxa.
        destruct Hxa as [e [He Hn]]. exists e. split; [exact He|].
        apply rt_step. repeat split; auto. }
      assert (Hconn' : forall x, In x (cur ++ inn) -> forall y, In y (cur ++ inn) -> conn S x y).
      { assert (Hto : forall x, In x (cur ++ inn) -> exists e, In e cur /\ conn S e x).
        { intros x Hx. apply in_app_or in Hx. destruct Hx as [Hx|Hx]; [exists x; split; [exact Hx|apply rt_refl]|apply Hlink, Hx]. }
        intros x Hx y Hy. destruct (Hto x Hx) as [ex [Hex Hcx]]. destruct (Hto y Hy) as [ey [Hey Hcy]].
        apply (rt_trans _ _ _ ex); [apply conn_sym, Hcx|]. apply (rt_trans _ _ _ ey); [apply Hconn; assumption|exact Hcy]. }
      destruct (IH (cur ++ inn) out Hg Hcur' Hout_S Hne' Hconn') as [Hperm [Hincl [Hcne [Hcc Hclosed]]]].
      split; [|split; [|split; [|split]]].
      * rewrite <- Hperm. rewrite <- app_assoc. apply Permutation_app_head. apply (partition_perm _ _ _ _ Hp).
      * intros x Hx. apply Hincl. apply in_or_app. left. exact Hx.
      * exact Hcne.
      * exact Hcc.
      * intros Hl. apply Hclosed. pose proof (partition_length _ _ _ _ Hp) as Hpl. unfold inn in Hpl. cbn [length] in Hpl. lia.
Qed.

(* ---------- comps ---------- *)
Fixpoint separated (cs : list (list ie)) : Prop :=
  match cs with
  | [] => True
  | c :: cs' => (forall f, In f (concat cs') -> adj_to c f = false) /\ separated cs'
  end.

Lemma comps_spec fuel (todo S : list ie) :
  length todo <= fuel -> incl todo S ->
  let cs := comps fuel todo in
  Permutation (concat cs) todo /\
  (forall c, In c cs -> c <> [] /\ forall x, In x c -> forall y, In y c -> conn S x y) /\
  separated cs.
Proof.
  revert todo; induction fuel as [|fuel IH]; intros todo Hl Hi; cbv zeta.
  - destruct todo; [|cbn in Hl; lia]. cbn. split; [constructor|split; [intros c0 Hc0; destruct Hc0|exact I]].
  - destruct todo as [|e rest]; [cbn; split; [constructor|split; [intros c0 Hc0; destruct Hc0|exact I]]|].
    cbn [comps]. destruct (grow (length rest) [e] rest) as [cc rest'] eqn:Hg.
    destruct (grow_spec (length rest) [e] rest cc rest' S Hg) as [Hperm [Hincl [Hcne [Hcc Hclosed]]]].
    + intros x [<-|[]]. apply Hi. left. reflexivity.
    + intros x Hx. apply Hi. right. exact Hx.
    + discriminate.
    + intros x [<-|[]] y [<-|[]]. apply rt_refl.
    + specialize (Hclosed (le_n _)).
      assert (Hlen : length rest' <= fuel).
      { apply Permutation_length in Hperm. rewrite !app_length in Hperm. cbn [length] in *.
        destruct cc as [|c0 c']; [congruence|]. cbn [length] in Hperm. lia. }
      assert (Hr'S : incl rest' S).
      { intros x Hx. apply Hi. apply (Permutation_in x (Permutation_sym Hperm)). apply in_or_app. right. exact Hx. }
      destruct (IH rest' Hlen Hr'S) as [Hp' [Hc' Hs']]. cbv zeta in *.
      split; [|split].
      * cbn [concat]. rewrite Hp'. apply Permutation_sym. exact Hperm.
      * intros c1 [<-|Hc1]; [split; assumption|apply Hc', Hc1].
      * cbn [separated]. split; [|exact Hs'].
        intros f Hf. apply Hclosed. apply (Permutation_in f Hp'). exact Hf.
Qed.

(* ---------- the component system of a duplicate-free subset ---------- *)
Definition same_comp (cs : list (list ie)) (x y : ie) : Prop := exists c, In c cs /\ In x c /\ In y c.

Lemma NoDup_app_tail {A} (l1 l2 : list A) : NoDup (l1 ++ l2) -> NoDup l2.
Proof. induction l1 as [|a l1 IH]; cbn [app]; intros H; [exact H|]. inversion H; subst. apply IH. assumption. Qed.

Lemma separated_cross cs c1 c2 x y :
  separated cs -> NoDup (concat cs) -> In c1 cs -> In c2 cs -> In x c1 -> In y c2 -> nb x y = true -> c1 = c2.
Proof.
  induction cs as [|c cs IH]; intros Hs Hnd H1 H2 Hx Hy Hn; [destruct H1|].
  cbn [separated concat] in *. destruct Hs as [Hs1 Hs2].
  assert (Hnd' : NoDup (concat cs)) by (apply NoDup_app_tail in Hnd; exact Hnd).
  destruct H1 as [<-|H1], H2 as [<-|H2]; [reflexivity| | |apply IH; assumption].
  - exfalso. assert (Hf : In y (concat cs)) by (apply in_concat; exists c2; split; assumption).
    specialize (Hs1 y Hf). apply not_true_iff_false in Hs1. apply Hs1. apply adj_to_iff. exists x. split; assumption.
  - exfalso. assert (Hf : In x (concat cs)) by (apply in_concat; exists c1; split; assumption).
    specialize (Hs1 x Hf). apply not_true_iff_false in Hs1. apply Hs1. apply adj_to_iff. exists y. split; [assumption|].
    rewrite nb_sym. exact Hn.
Qed.

Lemma in_unique_comp (cs : list (list ie)) c1 c2 (x : ie) : NoDup (concat cs) -> In c1 cs -> In c2 cs -> In x c1 -> In x c2 -> c1 = c2.
Proof.
  induction cs as [|c cs IH]; intros Hnd H1 H2 Hx1 Hx2; [destruct H1|].
  cbn [concat] in Hnd. pose proof (NoDup_app_tail _ _ Hnd) as Hnd'.
  assert (Hdis : forall z, In z c -> ~ In z (concat cs)).
  { intros z Hz Hz'. clear - Hnd Hz Hz'. induction c as [|a c IHc]; [destruct Hz|].
    cbn in Hnd. inversion Hnd; subst. destruct Hz as [<-|Hz].
    - apply H1. apply in_or_app. right. exact Hz'.
    - apply IHc; assumption. }
  destruct H1 as [<-|H1], H2 as [<-|H2]; [reflexivity| | |apply IH; assumption].
  - exfalso. apply (Hdis x Hx1). apply in_concat. exists c2. split; assumption.
  - exfalso. apply (Hdis x Hx2). apply in_concat. exists c1. split; assumption.
Qed.

(* C03: the model's components are exactly the classes of "connected within S" *)
Theorem components_are_classes (S : list ie) : NoDup S ->
  let cs := components S in
  Permutation (concat cs) S /\ (forall c, In c cs -> c <> []) /\
  forall x y, In x S -> In y S -> (conn S x y <-> same_comp cs x y).
Proof.
  intros Hnd cs. unfold cs, components.
  destruct (comps_spec (length S) S S (le_n _) (incl_refl S)) as [Hp [Hc Hsep]]. cbv zeta in *.
  set (css := comps (length S) S) in *.
  assert (Hndc : NoDup (concat css)) by (apply (Permutation_NoDup (Permutation_sym Hp)), Hnd).
  split; [exact Hp|]. split; [intros c Hin; apply (Hc c Hin)|].
  assert (Hhas : forall x, In x S -> exists c, In c css /\ In x c).
  { intros x Hx. apply (Permutation_in x (Permutation_sym Hp)) in Hx. apply in_concat in Hx. exact Hx. }
  intros x y Hx Hy. split.
  - intros Hconn. destruct (Hhas x Hx) as [cx [Hcx Hxc]].
    exists cx. split; [exact Hcx|]. split; [exact Hxc|].
    (* the class of x is preserved along every step *)
    revert cx Hcx Hxc. induction Hconn as [a b [Ha [Hb Hn]]|a|a b d Hconn1 IH1 Hconn2 IH2]; intros cx Hcx Hxc.
    + destruct (Hhas b Hb) as [cb [Hcb Hbc]].
      rewrite (separated_cross css cx cb a b Hsep Hndc Hcx Hcb Hxc Hbc Hn). exact Hbc.
    + exact Hxc.
    + assert (Hb : In b S).
      { clear - Hconn1 Hx. induction Hconn1 as [a b [_ [Hb _]]| |a b d _ IH1 _ IH2]; auto. }
      apply (IH2 Hb Hy cx Hcx). apply (IH1 Hx Hb cx Hcx Hxc).
  - intros [c [Hc1 [Hxc Hyc]]]. apply (Hc c Hc1); assumption.
Qed.

(* the edge subset selected by an id is duplicate-free: positions are distinct *)
Lemma NoDup_combine_seq (l : list (edge C)) a : NoDup (combine (seq a (length l)) l).
Proof.
  revert a; induction l as [|e l IH]; intros a; cbn [length seq combine]; [constructor|].
  constructor; [|apply IH].
  intros Hin. apply in_combine_l in Hin. apply in_seq in Hin. lia.
Qed.

Lemma NoDup_filter {A} (f : A -> bool) l : NoDup l -> NoDup (filter f l).
Proof.
  induction 1 as [|a l Hn Hd IH]; cbn [filter]; [constructor|].
  destruct (f a); [constructor; [|exact IH]|exact IH].
  intros Hin. apply filter_In in Hin. tauto.
Qed.

Lemma sub_edges_NoDup (edges : list (edge C)) s : NoDup (sub_edges edges s).
Proof. unfold sub_edges. apply NoDup_filter, NoDup_combine_seq. Qed.

End Comp.
