(* Proofs/CholSpec.v -- the entries of the model's Cholesky factor, for every scalar type:
   column c is computed from the finished columns k < c by the textbook recurrence, in the
   code's operation order. *)
From Coq Require Import ZArith List Bool Lia Arith.
From MT Require Import Model.Scalar Model.Matrix Proofs.TableProofs Proofs.MatrixFloat Proofs.LMatrix.
Import ListNotations.
Local Open Scope nat_scope.

Section Chol.
Context {C T : Type} (S : Scalar C T).
Variables (n : nat) (m : list T).

Notation cols := (chol_columns S n m).
(* q[(r,c)] *)
Definition qe (r c : nat) : T := nth r (nth c cols []) (s_zero S).

Definition pivot (c : nat) : T :=
  fold_left (fun dd k => s_sub S dd (s_mul S (qe c k) (qe c k))) (seq 0 c) (mget S n m c c).

Lemma chol_columns_prefix :
  length cols = n /\ forall c, c < n -> nth c cols [] = chol_column S n m (firstn c cols) c.
Proof.
  unfold chol_columns.
  destruct (snoc_build_prefix (chol_column S n m) [] 0 (seq 0 n)) as [Hl Hn].
  rewrite seq_length in *. split; [exact Hl|].
  intros c Hc. rewrite (Hn c Hc). rewrite seq_nth by exact Hc. reflexivity.
Qed.

Lemma chol_column_firstn (cs : list (list T)) c :
  chol_column S n m (firstn c cs) c = chol_column S n m cs c.
Proof.
  unfold chol_column.
  assert (Hq : forall k r, k < c -> nth r (nth k (firstn c cs) []) (s_zero S) = nth r (nth k cs []) (s_zero S)).
  { intros k r Hk. rewrite nth_firstn_lt by exact Hk. reflexivity. }
  assert (Hfold : forall (f g : T -> nat -> T) l a, (forall x k, In k l -> f x k = g x k) ->
            fold_left f l a = fold_left g l a).
  { intros f g l. induction l as [|k l IH]; intros a H; [reflexivity|].
    cbn [fold_left]. rewrite (H a k) by (left; reflexivity). apply IH. intros x k' Hin. apply H. right. exact Hin. }
  assert (Hd : fold_left (fun dd k => s_sub S dd (s_mul S (nth c (nth k (firstn c cs) []) (s_zero S)) (nth c (nth k (firstn c cs) []) (s_zero S)))) (seq 0 c) (mget S n m c c)
             = fold_left (fun dd k => s_sub S dd (s_mul S (nth c (nth k cs []) (s_zero S)) (nth c (nth k cs []) (s_zero S)))) (seq 0 c) (mget S n m c c)).
  { apply Hfold. intros x k Hin. apply in_seq in Hin. rewrite !Hq by lia. reflexivity. }
  rewrite Hd. apply map_ext_in. intros j _.
  destruct (Nat.ltb j c); [reflexivity|]. destruct (Nat.eqb j c); [reflexivity|].
  f_equal. apply Hfold. intros x k Hin. apply in_seq in Hin. rewrite !Hq by lia. reflexivity.
Qed.

(* the recurrence *)
Theorem chol_entry r c : r < n -> c < n ->
  qe r c =
  if Nat.ltb r c then s_zero S
  else if Nat.eqb r c then s_sqrt S (pivot c)
  else s_div S (fold_left (fun en k => s_sub S en (s_mul S (qe c k) (qe r k))) (seq 0 c) (mget S n m c r))
               (s_sqrt S (pivot c)).
Proof.
  intros Hr Hc. unfold qe at 1. destruct chol_columns_prefix as [_ Hn].
  rewrite (Hn c Hc), chol_column_firstn. unfold chol_column.
  rewrite (nth_indep _ (s_zero S) ((fun j => if Nat.ltb j c then s_zero S else s_zero S) 0))
    by (rewrite map_length, seq_length; exact Hr).
  set (fn := fun j => if Nat.ltb j c then s_zero S else _).
  change (if Nat.ltb 0 c then s_zero S else s_zero S) with (if Nat.ltb 0 c then s_zero S else s_zero S).
  rewrite (nth_indep _ _ (fn 0)) by (rewrite map_length, seq_length; exact Hr).
  rewrite (map_nth fn (seq 0 n) 0 r), seq_nth by exact Hr. unfold fn. cbn [Nat.add]. reflexivity.
Qed.

(* the row-major matrix handed to the rest of the routine *)
Lemma cholesky_entry r c : r < n -> c < n -> mget S n (cholesky S n m) r c = qe r c.
Proof. intros Hr Hc. unfold cholesky. rewrite mget_tab by assumption. reflexivity. Qed.

End Chol.
