(* Proofs/VectorProofs.v -- lemmas about Model/Vector.v and the binary64
   dictionary (C20). *)
From Coq Require Import ZArith List Floats Bool Lia.
From MT Require Import Model.Scalar Model.F64 Model.Vector.
Import ListNotations.

Section Generic.
Context {C T : Type} (S : Scalar C T).

Lemma map2_length (f : T -> T -> T) u v : length (map2 f u v) = Nat.min (length u) (length v).
Proof.
  revert v; induction u as [|a u IH]; intros [|b v]; simpl; auto.
Qed.

Lemma map2_nth_error (f : T -> T -> T) u v i a b :
  nth_error u i = Some a -> nth_error v i = Some b ->
  nth_error (map2 f u v) i = Some (f a b).
Proof.
  revert v i; induction u as [|x u IH]; intros [|y v] [|i]; simpl; try discriminate.
  - intros H1 H2; inversion H1; inversion H2; reflexivity.
  - apply IH.
Qed.

Lemma map2_nth_error_None (f : T -> T -> T) u v i :
  nth_error u i = None \/ nth_error v i = None -> nth_error (map2 f u v) i = None.
Proof.
  revert v i; induction u as [|x u IH]; intros v i Hn.
  - simpl. destruct i; reflexivity.
  - destruct v as [|y v].
    + simpl. destruct i; reflexivity.
    + destruct i as [|i]; simpl in *.
      * destruct Hn; discriminate.
      * apply IH, Hn.
Qed.

(* the three binary operators are the componentwise scalar operation *)
Lemma vadd_spec u v i a b :
  nth_error u i = Some a -> nth_error v i = Some b ->
  nth_error (vadd S u v) i = Some (s_add S a b).
Proof. apply map2_nth_error. Qed.

Lemma vsub_spec u v i a b :
  nth_error u i = Some a -> nth_error v i = Some b ->
  nth_error (vsub S u v) i = Some (s_sub S a b).
Proof. apply map2_nth_error. Qed.

Lemma vadd_assign_spec u v i a b :
  nth_error u i = Some a -> nth_error v i = Some b ->
  nth_error (vadd_assign S u v) i = Some (s_add S a b).
Proof. apply map2_nth_error. Qed.

Lemma vscale_spec u c i a :
  nth_error u i = Some a -> nth_error (vscale S u c) i = Some (s_mul S a c).
Proof. intros H; unfold vscale; rewrite nth_error_map, H; reflexivity. Qed.

Lemma vadd_length u v (D : nat) : length u = D -> length v = D -> length (vadd S u v) = D.
Proof. intros; unfold vadd; rewrite map2_length; lia. Qed.
Lemma vsub_length u v (D : nat) : length u = D -> length v = D -> length (vsub S u v) = D.
Proof. intros; unfold vsub; rewrite map2_length; lia. Qed.
Lemma vscale_length u c : length (vscale S u c) = length u.
Proof. apply map_length. Qed.

Lemma vzero_spec (D i : nat) : (i < D)%nat -> nth_error (vzero S D) i = Some (s_zero S).
Proof.
  intros H; unfold vzero. rewrite nth_error_repeat; auto.
Qed.
Lemma vzero_length (D : nat) : length (vzero S D) = D.
Proof. apply repeat_length. Qed.

(* dot accumulates from index 0: it is the left fold, characterised by snoc *)
Lemma dot_nil : dot S [] [] = s_zero S.
Proof. reflexivity. Qed.

Lemma combine_app_eq {A B} (u u' : list A) (v v' : list B) : length u = length v ->
  combine (u ++ u') (v ++ v') = combine u v ++ combine u' v'.
Proof.
  revert v; induction u as [|x u IH]; intros [|y v] H; simpl in *; try discriminate; auto.
  f_equal. apply IH. congruence.
Qed.

Lemma dot_snoc u v a b : length u = length v ->
  dot S (u ++ [a]) (v ++ [b]) = s_add S (dot S u v) (s_mul S a b).
Proof.
  intros H; unfold dot.
  rewrite combine_app_eq by exact H. rewrite fold_left_app. reflexivity.
Qed.

Lemma squared_snoc u a :
  squared S (u ++ [a]) = s_add S (squared S u) (s_mul S a a).
Proof. unfold squared; rewrite fold_left_app; reflexivity. Qed.

(* squared(v) = dot(v,v), for every scalar type *)
Lemma squared_is_dot_acc u acc :
  fold_left (fun acc x => s_add S acc (s_mul S x x)) u acc =
  fold_left (fun acc ab => s_add S acc (s_mul S (fst ab) (snd ab))) (combine u u) acc.
Proof.
  revert acc; induction u as [|x u IH]; intros acc; simpl; auto.
Qed.

Lemma squared_is_dot u : squared S u = dot S u u.
Proof. apply squared_is_dot_acc. Qed.

(* dot is symmetric as soon as the scalar multiplication is commutative *)
Lemma dot_sym_acc (Hc : forall x y, s_mul S x y = s_mul S y x) u v acc :
  fold_left (fun acc ab => s_add S acc (s_mul S (fst ab) (snd ab))) (combine u v) acc =
  fold_left (fun acc ab => s_add S acc (s_mul S (fst ab) (snd ab))) (combine v u) acc.
Proof.
  revert v acc; induction u as [|x u IH]; intros [|y v] acc; simpl; auto.
  rewrite (Hc x y). apply IH.
Qed.

Lemma dot_sym (Hc : forall x y, s_mul S x y = s_mul S y x) u v : dot S u v = dot S v u.
Proof. apply dot_sym_acc, Hc. Qed.

End Generic.

(* ---------------- binary64 ---------------- *)

Lemma SFmul_comm prec emax a b : SFmul prec emax a b = SFmul prec emax b a.
Proof.
  destruct a as [sa|sa| |sa ma ea], b as [sb|sb| |sb mb eb]; simpl; try reflexivity;
    try (rewrite (xorb_comm sa sb); reflexivity).
  rewrite (xorb_comm sa sb), (Pos.mul_comm ma mb), (Z.add_comm ea eb). reflexivity.
Qed.

Lemma Prim2SF_inj x y : Prim2SF x = Prim2SF y -> x = y.
Proof.
  intros H. rewrite <- (SF2Prim_Prim2SF x), <- (SF2Prim_Prim2SF y), H. reflexivity.
Qed.

Lemma f64_mul_comm (x y : float) : PrimFloat.mul x y = PrimFloat.mul y x.
Proof.
  apply Prim2SF_inj. rewrite !mul_spec. apply SFmul_comm.
Qed.

Lemma SFadd_comm prec emax a b : SFadd prec emax a b = SFadd prec emax b a.
Proof.
  destruct a as [sa|sa| |sa ma ea], b as [sb|sb| |sb mb eb]; simpl; try reflexivity.
  - destruct sa, sb; reflexivity.
  - destruct sa, sb; reflexivity.
  - rewrite (Z.min_comm ea eb).
    rewrite (Z.add_comm (cond_Zopp sa _) (cond_Zopp sb _)). reflexivity.
Qed.

Lemma f64_add_comm (x y : float) : PrimFloat.add x y = PrimFloat.add y x.
Proof.
  apply Prim2SF_inj. rewrite !add_spec. apply SFadd_comm.
Qed.

Lemma dot_sym_f64 tb u v : dot (F64 tb) u v = dot (F64 tb) v u.
Proof. apply dot_sym. intros x y; apply f64_mul_comm. Qed.

(* facts about the binary64 dictionary *)
Lemma f64_inv_is_one_over tb x : s_inv (F64 tb) x = PrimFloat.div 1%float x.
Proof. reflexivity. Qed.

Lemma f64_abs_clears_sign tb x : Prim2SF (s_abs (F64 tb) x) = SFabs (Prim2SF x).
Proof. apply abs_spec. Qed.

Lemma f64_constants tb :
  bits_of (s_zero (F64 tb)) = 0%Z /\
  bits_of (s_one (F64 tb)) = 0x3FF0000000000000%Z /\
  bits_of (s_pi (F64 tb)) = 0x400921FB54442D18%Z.
Proof. vm_compute. repeat split. Qed.

Lemma f64_of_Z_spec_pos tb p : (Zpos p < 2^63)%Z ->
  Prim2SF (s_of_Z (F64 tb) (Zpos p)) = binary_normalize prec emax (Zpos p) 0 false.
Proof.
  intros H. cbn [s_of_Z F64 f64_of_Z]. rewrite of_uint63_spec.
  rewrite Uint63.of_Z_spec. rewrite Z.mod_small; [reflexivity|].
  change Uint63.wB with (2^63)%Z. lia.
Qed.

Lemma f64_of_Z_spec_neg tb p : (Zpos p < 2^63)%Z ->
  Prim2SF (s_of_Z (F64 tb) (Zneg p)) = SFopp (binary_normalize prec emax (Zpos p) 0 false).
Proof.
  intros H. cbn [s_of_Z F64 f64_of_Z]. rewrite opp_spec, of_uint63_spec.
  rewrite Uint63.of_Z_spec. rewrite Z.mod_small; [reflexivity|].
  change Uint63.wB with (2^63)%Z. lia.
Qed.

Lemma f64_of_Z_zero tb : bits_of (s_of_Z (F64 tb) 0) = 0%Z.
Proof. vm_compute. reflexivity. Qed.
