(* Proofs/TableProofs.v -- structural facts about Model/Table.v that hold for
   every scalar type: the J recursion of the filled table (C04), the
   characterisation of rejection (C05), totality (C05). *)
From Coq Require Import ZArith NArith List Bool Lia Arith.
From MT Require Import Model.Scalar Model.Graph Model.Table.
Import ListNotations.

(* ---------- bit masks ---------- *)
Lemma bit_pow e : bit e = (2 ^ N.of_nat e)%N.
Proof. unfold bit. rewrite N.shiftl_1_l. reflexivity. Qed.

Lemma pop_edge_add g e : has_edge g e = true -> (pop_edge g e + bit e = g)%N.
Proof.
  intros H. unfold pop_edge, has_edge in *.
  assert (Hl : N.land (N.lxor g (bit e)) (bit e) = 0%N).
  { apply N.bits_inj. intros n. rewrite N.land_spec, N.lxor_spec, N.bits_0.
    rewrite bit_pow. destruct (N.eq_dec n (N.of_nat e)) as [->|Hne].
    - rewrite H, N.pow2_bits_true. reflexivity.
    - rewrite N.pow2_bits_false by congruence. apply andb_false_r. }
  rewrite (N.add_nocarry_lxor _ _ Hl).
  rewrite N.lxor_assoc, N.lxor_nilpotent, N.lxor_0_r. reflexivity.
Qed.

Lemma pop_edge_lt g e : has_edge g e = true -> (pop_edge g e < g)%N.
Proof.
  intros H. pose proof (pop_edge_add g e H) as Ha.
  assert (0 < bit e)%N by (rewrite bit_pow; apply N.neq_0_lt_0, N.pow_nonzero; discriminate).
  lia.
Qed.

Lemma edges_of_has E g e : In e (edges_of E g) -> has_edge g e = true /\ e < E.
Proof.
  unfold edges_of. rewrite filter_In, in_seq. intros [H1 H2]. split; [exact H2|lia].
Qed.

(* ---------- lists ---------- *)
Lemma nth_firstn_lt {A} (l : list A) k h d : h < k -> nth h (firstn k l) d = nth h l d.
Proof.
  revert k h; induction l as [|x l IH]; intros k h Hlt.
  - rewrite firstn_nil. reflexivity.
  - destruct k as [|k]; [lia|]. destruct h as [|h]; simpl; [reflexivity|].
    apply IH. lia.
Qed.

Lemma last_nth {A} (l : list A) d : last l d = nth (length l - 1) l d.
Proof.
  induction l as [|x l IH]; [reflexivity|].
  destruct l as [|y l]; [reflexivity|].
  change (last (x :: y :: l) d) with (last (y :: l) d). rewrite IH.
  cbn [length]. replace (S (S (length l)) - 1) with (S (length l)) by lia.
  replace (S (length l) - 1) with (length l) by lia. reflexivity.
Qed.

Lemma seq_snoc n : seq 0 (S n) = seq 0 n ++ [n].
Proof. rewrite seq_S. reflexivity. Qed.

Section Table.
Context {C : Type} (SC : Scalar C C) (gam : C -> C).

Notation zero := (s_zero SC).
Definition dshape : nat * bool * C := (0, false, s_zero SC).
Definition dentry : entry C := mkEntry 0 false (s_zero SC) (s_zero SC).

(* ---------- fill_j ---------- *)
Definition jstep E sh (js : list C) (g : sid) := js ++ [j_of SC E sh js g].

Lemma snoc_build_prefix {A B} (f : list B -> A -> B) (d : B) (dA : A) (xs : list A) :
  length (fold_left (fun acc x => acc ++ [f acc x]) xs []) = length xs /\
  forall k, k < length xs ->
    nth k (fold_left (fun acc x => acc ++ [f acc x]) xs []) d =
    f (firstn k (fold_left (fun acc x => acc ++ [f acc x]) xs [])) (nth k xs dA).
Proof.
  induction xs as [|x xs IH] using rev_ind.
  - simpl. split; [reflexivity|intros; lia].
  - rewrite fold_left_app. cbn [fold_left].
    remember (fold_left (fun acc x => acc ++ [f acc x]) xs []) as r eqn:Hr.
    destruct IH as [Hlen Hnth]. rewrite !app_length. cbn [length]. split; [lia|].
    intros k Hk. destruct (Nat.eq_dec k (length xs)) as [->|Hne].
    + rewrite app_nth2 by lia. rewrite Hlen, Nat.sub_diag. cbn [nth].
      rewrite firstn_app, Hlen, Nat.sub_diag. cbn [firstn]. rewrite app_nil_r.
      rewrite <- Hlen at 1. rewrite firstn_all.
      rewrite app_nth2 by lia. rewrite Nat.sub_diag. reflexivity.
    + assert (k < length xs) by lia.
      rewrite app_nth1 by lia. rewrite Hnth by assumption.
      rewrite firstn_app. replace (k - length r) with 0 by lia. cbn [firstn]. rewrite app_nil_r.
      rewrite app_nth1 by lia. reflexivity.
Qed.

Lemma fill_j_prefix E sh n :
  let js := fold_left (jstep E sh) (map N.of_nat (seq 0 n)) [] in
  length js = n /\
  forall k, k < n -> nth k js zero = j_of SC E sh (firstn k js) (N.of_nat k).
Proof.
  cbv zeta. unfold jstep.
  destruct (snoc_build_prefix (j_of SC E sh) zero 0%N (map N.of_nat (seq 0 n))) as [Hl Hn].
  rewrite map_length, seq_length in *. split; [exact Hl|].
  intros k Hk. rewrite (Hn k Hk). f_equal.
  rewrite (nth_indep _ 0%N (N.of_nat 0)) by (rewrite map_length, seq_length; exact Hk).
  rewrite map_nth, seq_nth by exact Hk. reflexivity.
Qed.

Lemma fill_j_unfold E sh : fill_j SC E sh = fold_left (jstep E sh) (map N.of_nat (seq 0 (2 ^ E))) [].
Proof. reflexivity. Qed.

Lemma fill_j_length E sh : length (fill_j SC E sh) = 2 ^ E.
Proof. rewrite fill_j_unfold. apply (fill_j_prefix E sh (2 ^ E)). Qed.

Lemma j_of_firstn E sh js g k : (N.to_nat g <= k) ->
  j_of SC E sh (firstn k js) g = j_of SC E sh js g.
Proof.
  intros Hk. unfold j_of. destruct (is_empty g); [reflexivity|].
  f_equal. apply map_ext_in. intros e He.
  apply edges_of_has in He. destruct He as [He _].
  pose proof (pop_edge_lt g e He). rewrite nth_firstn_lt by lia. reflexivity.
Qed.

Lemma pow2_nat_N E : N.of_nat (2 ^ E) = (2 ^ N.of_nat E)%N.
Proof. rewrite Nat2N.inj_pow. reflexivity. Qed.

Lemma lt_pow2_nat g E : (g < 2 ^ N.of_nat E)%N -> N.to_nat g < 2 ^ E.
Proof. rewrite <- pow2_nat_N. lia. Qed.

(* the J recursion, on the list of J values *)
Lemma fill_j_rec E sh g : (g < 2 ^ N.of_nat E)%N ->
  nth (N.to_nat g) (fill_j SC E sh) zero = j_of SC E sh (fill_j SC E sh) g.
Proof.
  intros Hg. rewrite fill_j_unfold.
  destruct (fill_j_prefix E sh (2 ^ E)) as [_ Hn]. cbv zeta in Hn.
  rewrite (Hn (N.to_nat g) (lt_pow2_nat g E Hg)).
  rewrite N2Nat.id. apply j_of_firstn. lia.
Qed.

(* ---------- shapes ---------- *)
Definition divergent (tg : tgraph C) D (full g : sid) : bool :=
  s_leb SC (snd (entry_shape SC tg D full g)) zero && negb (is_empty g) && negb (N.eqb g full).

Lemma shapes_None tg D full ids :
  shapes SC tg D full ids = None <-> exists g, In g ids /\ divergent tg D full g = true.
Proof.
  induction ids as [|g ids IH]; cbn [shapes].
  - split; [discriminate|intros [g [[] _]]].
  - unfold divergent in *. destruct (entry_shape SC tg D full g) as [[L sp] gd] eqn:He.
    destruct (s_leb SC gd zero && negb (is_empty g) && negb (N.eqb g full)) eqn:Hd.
    + split; [intros _|reflexivity]. exists g. split; [left; reflexivity|].
      rewrite He. cbn [snd]. exact Hd.
    + destruct (shapes SC tg D full ids) as [r|] eqn:Hs.
      * split; [discriminate|]. intros [g' [[<-|Hin] Hg']].
        -- rewrite He in Hg'. cbn [snd] in Hg'. congruence.
        -- destruct IH as [_ IH]. discriminate IH. exists g'. split; assumption.
      * split; [intros _|reflexivity]. destruct IH as [IH _].
        destruct (IH eq_refl) as [g' [Hin Hg']]. exists g'. split; [right; exact Hin|exact Hg'].
Qed.

Lemma shapes_Some tg D full ids sh :
  shapes SC tg D full ids = Some sh ->
  sh = map (entry_shape SC tg D full) ids /\
  forall g, In g ids -> divergent tg D full g = false.
Proof.
  revert sh; induction ids as [|g ids IH]; cbn [shapes map]; intros sh H.
  - inversion H. split; [reflexivity|intros g []].
  - unfold divergent in *. destruct (entry_shape SC tg D full g) as [[L sp] gd] eqn:He.
    destruct (s_leb SC gd zero && negb (is_empty g) && negb (N.eqb g full)) eqn:Hd; [discriminate|].
    destruct (shapes SC tg D full ids) as [r|] eqn:Hs; [|discriminate].
    inversion H; subst sh. destruct (IH r eq_refl) as [-> Hall]. split; [reflexivity|].
    intros g' [<-|Hin]; [rewrite He; exact Hd|apply Hall, Hin].
Qed.

Lemma ids_upto_In E g : In g (ids_upto E) <-> (g < 2 ^ N.of_nat E)%N.
Proof.
  unfold ids_upto. rewrite in_map_iff. split.
  - intros [k [<- Hk]]. apply in_seq in Hk. rewrite <- pow2_nat_N. lia.
  - intros H. exists (N.to_nat g). split; [apply N2Nat.id|].
    apply in_seq. pose proof (lt_pow2_nat g E H). lia.
Qed.

Lemma ids_upto_length E : length (ids_upto E) = 2 ^ E.
Proof. unfold ids_upto. rewrite map_length, seq_length. reflexivity. Qed.

Lemma ids_upto_nth E k : k < 2 ^ E -> nth k (ids_upto E) 0%N = N.of_nat k.
Proof.
  intros H. unfold ids_upto.
  rewrite (nth_indep _ 0%N (N.of_nat 0)) by (rewrite map_length, seq_length; exact H).
  rewrite map_nth, seq_nth by exact H. reflexivity.
Qed.

(* ---------- the result of generate_from_tropical ---------- *)
Definition mk_entry (p : (nat * bool * C) * C) : entry C :=
  mkEntry (fst (fst (fst p))) (snd (fst (fst p))) (snd p) (snd (fst p)).

Lemma generate_cases tg D :
  let E := length (tg_edges tg) in
  match generate_from_tropical SC gam tg D with
  | BuildPanic _ => 64 <= E
  | BuildErr => E < 64 /\ exists g, (g < 2 ^ N.of_nat E)%N /\ divergent tg D (N.ones (N.of_nat E)) g = true
  | BuildOk t =>
      E < 64 /\
      let full := N.ones (N.of_nat E) in
      let sh := map (entry_shape SC tg D full) (ids_upto E) in
      let js := fill_j SC E sh in
      (forall g, (g < 2 ^ N.of_nat E)%N -> divergent tg D full g = false) /\
      tb_entries t = map mk_entry (combine sh js) /\ tb_dim t = D /\ tb_graph t = tg /\
      tb_factor t = cached_factor SC gam tg D (last js zero)
  end.
Proof.
  cbv zeta. unfold generate_from_tropical, full_id.
  destruct (Nat.ltb_spec (length (tg_edges tg)) 64) as [Hlt|Hge]; [|exact Hge].
  destruct (shapes SC tg D _ (ids_upto (length (tg_edges tg)))) as [sh|] eqn:Hs.
  - apply shapes_Some in Hs. destruct Hs as [-> Hall]. split; [exact Hlt|].
    split; [intros g Hg; apply Hall, ids_upto_In, Hg|].
    simpl. repeat split; reflexivity.
  - apply shapes_None in Hs. destruct Hs as [g [Hin Hd]]. split; [exact Hlt|].
    exists g. split; [apply ids_upto_In, Hin|exact Hd].
Qed.

Lemma nth_entries sh js k : length sh = length js -> k < length sh ->
  nth k (map mk_entry (combine sh js)) dentry = mk_entry (nth k sh dshape, nth k js zero).
Proof.
  intros Hl Hk.
  rewrite (nth_indep _ dentry (mk_entry (dshape, zero))) by (rewrite map_length, combine_length; lia).
  rewrite map_nth, combine_nth by exact Hl. reflexivity.
Qed.

(* C03: what every entry of the finished table holds *)
Theorem table_entry_shape tg D t g :
  generate_from_tropical SC gam tg D = BuildOk t ->
  let E := length (tg_edges tg) in
  (g < 2 ^ N.of_nat E)%N ->
  let e := nth (N.to_nat g) (tb_entries t) dentry in
  (t_loop e, t_span e, t_dod e) = entry_shape SC tg D (N.ones (N.of_nat E)) g.
Proof.
  intros Hb E Hg. pose proof (generate_cases tg D) as Hc. rewrite Hb in Hc. cbv zeta in Hc.
  destruct Hc as [HE [_ [Hent _]]]. fold E in Hent. cbv zeta.
  set (sh := map (entry_shape SC tg D (N.ones (N.of_nat E))) (ids_upto E)) in *.
  assert (Hlsh : length sh = 2 ^ E) by (unfold sh; rewrite map_length; apply ids_upto_length).
  pose proof (lt_pow2_nat g E Hg) as Hk.
  rewrite Hent, nth_entries by (try lia; rewrite fill_j_length; lia).
  cbn [mk_entry t_dod t_loop t_span fst snd]. unfold sh.
  rewrite (nth_indep _ dshape (entry_shape SC tg D (N.ones (N.of_nat E)) 0%N))
    by (rewrite map_length, ids_upto_length; exact Hk).
  rewrite map_nth, ids_upto_nth by exact Hk. rewrite N2Nat.id.
  destruct (entry_shape SC tg D (N.ones (N.of_nat E)) g) as [[a b] c]. reflexivity.
Qed.

Theorem table_globals tg D t :
  generate_from_tropical SC gam tg D = BuildOk t -> tb_graph t = tg /\ tb_dim t = D.
Proof.
  intros Hb. pose proof (generate_cases tg D) as Hc. rewrite Hb in Hc. cbv zeta in Hc.
  destruct Hc as [_ [_ [_ [Hd [Hg _]]]]]. split; assumption.
Qed.

(* C04: the J recursion on the finished table *)
Theorem table_J_recursion tg D t :
  generate_from_tropical SC gam tg D = BuildOk t ->
  let E := length (tg_edges tg) in
  let J g := t_j (nth (N.to_nat g) (tb_entries t) dentry) in
  let om g := t_dod (nth (N.to_nat g) (tb_entries t) dentry) in
  J 0%N = s_one SC /\
  forall g, (0 < g)%N -> (g < 2 ^ N.of_nat E)%N ->
    J g = csum SC (map (fun e => s_div SC (J (pop_edge g e)) (om (pop_edge g e))) (edges_of E g)).
Proof.
  intros Hb. pose proof (generate_cases tg D) as Hc. rewrite Hb in Hc. cbv zeta in Hc.
  destruct Hc as [HE [_ [Hent _]]]. cbv zeta.
  set (E := length (tg_edges tg)) in *.
  set (sh := map (entry_shape SC tg D (N.ones (N.of_nat E))) (ids_upto E)) in *.
  set (js := fill_j SC E sh) in *.
  assert (Hlsh : length sh = 2 ^ E) by (unfold sh; rewrite map_length; apply ids_upto_length).
  assert (Hljs : length js = 2 ^ E) by apply fill_j_length.
  assert (Hnth : forall g, (g < 2 ^ N.of_nat E)%N ->
     t_j (nth (N.to_nat g) (tb_entries t) dentry) = nth (N.to_nat g) js zero /\
     t_dod (nth (N.to_nat g) (tb_entries t) dentry) = snd (nth (N.to_nat g) sh dshape)).
  { intros g Hg. rewrite Hent, nth_entries by (try lia; rewrite Hlsh; apply lt_pow2_nat, Hg).
    split; reflexivity. }
  assert (H0 : (0 < 2 ^ N.of_nat E)%N) by (apply N.neq_0_lt_0, N.pow_nonzero; discriminate).
  split.
  - destruct (Hnth 0%N H0) as [-> _]. unfold js. rewrite (fill_j_rec E sh 0%N H0). reflexivity.
  - intros g Hpos Hg. destruct (Hnth g Hg) as [-> _]. unfold js at 1.
    rewrite (fill_j_rec E sh g Hg). unfold j_of.
    replace (is_empty g) with false by (symmetry; apply N.eqb_neq; lia).
    f_equal. apply map_ext_in. intros e He. apply edges_of_has in He. destruct He as [He _].
    pose proof (pop_edge_lt g e He) as Hlt.
    destruct (Hnth (pop_edge g e) ltac:(lia)) as [-> ->]. reflexivity.
Qed.

(* C04: the stored normalisation *)
Theorem table_factor tg D t :
  generate_from_tropical SC gam tg D = BuildOk t ->
  let E := length (tg_edges tg) in
  let Jfull := t_j (nth (N.to_nat (N.ones (N.of_nat E))) (tb_entries t) dentry) in
  tb_factor t =
    s_mul SC (s_mul SC Jfull
               (s_div SC (gam (tg_dod tg)) (cprod SC (map (fun e => gam (e_weight e)) (tg_edges tg)))))
             (s_powf SC (s_pi SC) (s_div SC (ofnat SC (D * tg_loops tg)) (ofnat SC 2))).
Proof.
  intros Hb. pose proof (generate_cases tg D) as Hc. rewrite Hb in Hc. cbv zeta in Hc.
  destruct Hc as [HE [_ [Hent [_ [_ Hf]]]]]. cbv zeta.
  set (E := length (tg_edges tg)) in *.
  set (sh := map (entry_shape SC tg D (N.ones (N.of_nat E))) (ids_upto E)) in *.
  set (js := fill_j SC E sh) in *.
  assert (Hlsh : length sh = 2 ^ E) by (unfold sh; rewrite map_length; apply ids_upto_length).
  assert (Hljs : length js = 2 ^ E) by apply fill_j_length.
  assert (Hpos : 0 < 2 ^ E) by (apply Nat.neq_0_lt_0, Nat.pow_nonzero; discriminate).
  assert (Hfull : N.to_nat (N.ones (N.of_nat E)) = 2 ^ E - 1).
  { rewrite N.ones_equiv, <- pow2_nat_N. lia. }
  rewrite Hf. unfold cached_factor. rewrite Hent, Hfull, nth_entries by lia.
  simpl. f_equal. f_equal.
  rewrite last_nth, Hljs. reflexivity.
Qed.

(* C05: rejection is exactly "some non-empty proper subset has omega <= 0" *)
Theorem build_err_iff tg D : length (tg_edges tg) < 64 ->
  let E := length (tg_edges tg) in
  let full := N.ones (N.of_nat E) in
  (generate_from_tropical SC gam tg D = BuildErr <->
   exists g, (g < 2 ^ N.of_nat E)%N /\ g <> 0%N /\ g <> full /\
             s_leb SC (snd (entry_shape SC tg D full g)) zero = true).
Proof.
  intros HE. cbv zeta. pose proof (generate_cases tg D) as Hc. cbv zeta in Hc.
  assert (Hdiv : forall g, divergent tg D (N.ones (N.of_nat (length (tg_edges tg)))) g = true <->
     g <> 0%N /\ g <> N.ones (N.of_nat (length (tg_edges tg))) /\
     s_leb SC (snd (entry_shape SC tg D (N.ones (N.of_nat (length (tg_edges tg)))) g)) zero = true).
  { intros g. unfold divergent, is_empty. rewrite !andb_true_iff, !negb_true_iff, !N.eqb_neq. tauto. }
  split.
  - intros Hb. rewrite Hb in Hc. destruct Hc as [_ [g [Hg Hd]]]. exists g.
    apply Hdiv in Hd. tauto.
  - intros [g [Hg Hd]]. destruct (generate_from_tropical SC gam tg D) as [t| |w]; [|reflexivity|lia].
    destruct Hc as [_ [Hall _]]. specialize (Hall g Hg).
    assert (divergent tg D (N.ones (N.of_nat (length (tg_edges tg)))) g = true) by (apply Hdiv; tauto).
    congruence.
Qed.

(* C05: no panic within the size limit of a 64-bit mask *)
Theorem build_total tg D : length (tg_edges tg) < 64 ->
  forall w, generate_from_tropical SC gam tg D <> BuildPanic w.
Proof.
  intros HE w Hb. pose proof (generate_cases tg D) as Hc. rewrite Hb in Hc. cbv zeta in Hc. lia.
Qed.

Theorem build_panics_at_64 tg D : 64 <= length (tg_edges tg) ->
  generate_from_tropical SC gam tg D = BuildPanic 64.
Proof.
  intros HE. unfold generate_from_tropical, full_id.
  destruct (Nat.ltb_spec (length (tg_edges tg)) 64); [lia|reflexivity].
Qed.

(* every id of the table is filled *)
Theorem table_total tg D t :
  generate_from_tropical SC gam tg D = BuildOk t ->
  length (tb_entries t) = 2 ^ length (tg_edges tg).
Proof.
  intros Hb. pose proof (generate_cases tg D) as Hc. rewrite Hb in Hc. cbv zeta in Hc.
  destruct Hc as [_ [_ [-> _]]].
  rewrite map_length, combine_length, map_length, ids_upto_length, fill_j_length. lia.
Qed.

End Table.

(* ---------- from_graph / build_sampler ---------- *)
Section FromGraph.
Context {C : Type} (SC : Scalar C C) (gam : C -> C).

Definition tg_of (g : graph C) (D : nat) : tgraph C :=
  let E := length (g_edges g) in
  let all := combine (seq 0 E) (g_edges g) in
  let L := loop_number all in
  mkTG (s_sub SC (weight_sum SC all) (half_LD SC L D)) (g_edges g)
       (length (filter (fun e => e_massive e) (g_edges g))) (g_ext g) L.

Lemma from_graph_ok g D : length (g_edges g) <= 64 -> from_graph SC g D = Ok (tg_of g D).
Proof.
  intros H. unfold from_graph. destruct (Nat.ltb_spec 64 (length (g_edges g))); [lia|reflexivity].
Qed.

Lemma build_sampler_eq g D : length (g_edges g) <= 64 ->
  build_sampler SC gam g D = generate_from_tropical SC gam (tg_of g D) D.
Proof. intros H. unfold build_sampler. rewrite from_graph_ok by exact H. reflexivity. Qed.

Lemma build_sampler_too_big g D : 64 < length (g_edges g) -> build_sampler SC gam g D = BuildPanic 1.
Proof.
  intros H. unfold build_sampler, from_graph.
  destruct (Nat.ltb_spec 64 (length (g_edges g))); [reflexivity|lia].
Qed.

End FromGraph.

Section BuildFacts.
Context {C : Type} (SC : Scalar C C) (gam : C -> C).
Variables (g : graph C) (D : nat) (t : table C).
Hypothesis Hsize : length (g_edges g) < 64.
Hypothesis Hb : build_sampler SC gam g D = BuildOk t.

Lemma build_gen : generate_from_tropical SC gam (tg_of SC g D) D = BuildOk t.
Proof. rewrite <- (build_sampler_eq SC gam g D) by lia. exact Hb. Qed.

Lemma build_globals :
  let E := length (g_edges g) in
  let all := combine (seq 0 E) (g_edges g) in
  tg_edges (tb_graph t) = g_edges g /\
  tg_ext (tb_graph t) = g_ext g /\
  tg_loops (tb_graph t) = loop_number all /\
  tg_nmassive (tb_graph t) = length (filter (fun e => e_massive e) (g_edges g)) /\
  tg_dod (tb_graph t) = s_sub SC (weight_sum SC all) (half_LD SC (loop_number all) D) /\
  tb_dim t = D /\
  length (tb_entries t) = 2 ^ E /\
  (1 <= E -> get_num_variables t =
             Ok (2 * E - 1 + loop_number all * D + Nat.modulo (loop_number all * D) 2)).
Proof.
  cbv zeta. destruct (table_globals SC gam _ D t build_gen) as [Hg Hd].
  pose proof (table_total SC gam _ D t build_gen) as Hlen.
  rewrite Hg. cbn [tg_of tg_edges tg_ext tg_loops tg_nmassive tg_dod] in *.
  repeat split; try assumption.
  intros HE. unfold get_num_variables. rewrite Hg, Hd. cbn [tg_of tg_edges].
  destruct (Nat.eqb_spec (length (g_edges g)) 0); [lia|reflexivity].
Qed.

Lemma build_entries :
  let E := length (g_edges g) in
  let nmassive := length (filter (fun e => e_massive e) (g_edges g)) in
  forall s, (s < 2 ^ N.of_nat E)%N ->
  let e := nth (N.to_nat s) (tb_entries t) (dentry SC) in
  let sub := sub_edges (g_edges g) s in
  t_loop e = loop_number sub /\
  t_span e = is_mass_momentum_spanning nmassive (g_ext g) sub /\
  t_dod e =
    (if N.eqb s 0 then s_one SC
     else if t_span e
          then s_sub SC (s_sub SC (weight_sum SC sub) (half_LD SC (loop_number sub) D)) (tg_dod (tb_graph t))
          else s_sub SC (weight_sum SC sub) (half_LD SC (loop_number sub) D)).
Proof.
  cbv zeta. intros s Hs.
  pose proof (table_entry_shape SC gam _ D t s build_gen Hs) as He. cbv zeta in He.
  destruct (table_globals SC gam _ D t build_gen) as [Hg _]. rewrite Hg.
  unfold entry_shape in He. cbn [tg_of tg_edges tg_ext tg_nmassive tg_dod] in *.
  injection He as H1 H2 H3. split; [exact H1|split; [exact H2|]]. rewrite H2. exact H3.
Qed.

End BuildFacts.
