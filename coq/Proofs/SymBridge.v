(* Proofs/SymBridge.v -- the model's L matrix, u-vectors, V polynomial, loop momenta and
   shift, instantiated at the dictionary FS F of a real closed field, are the matrix
   expressions of Proofs/Symanzik.v.  Folds over edges/loops become big sums. *)
From Coq Require Import ZArith List.
From mathcomp Require Import all_ssreflect all_algebra.
From mathcomp Require Import ring.
From MT Require Import Model.Scalar Model.Vector Model.Matrix Model.Sampling
  Proofs.MatrixFloat Proofs.LMatrix Proofs.LinAlg Proofs.Symanzik.
Set Implicit Arguments.
Unset Strict Implicit.
Unset Printing Implicit Defensive.
Import Order.TTheory GRing.Theory Num.Theory.
Local Open Scope ring_scope.

Section Bridge.
Variable F : rcfType.
Notation FS := (FS F).

(* ---------- Z -> int -> F is a ring morphism ---------- *)
Lemma NegzP p : Negz (Pos.to_nat p).-1 = - Posz (Pos.to_nat p).
Proof.
  have := Pos2Nat.is_pos p; move/ssrnat.ltP.
  by case: (Pos.to_nat p) => // n _; rewrite NegzE.
Qed.

Lemma Z2int_mul a b : Z2int (a * b) = Z2int a * Z2int b.
Proof.
  case: a => [|p|p]; case: b => [|q|q]; rewrite /= ?mulr0 ?mul0r ?NegzP ?Pos2Nat.inj_mul ?PoszM //.
  - by rewrite mulrN.
  - by rewrite mulNr.
  - by rewrite mulrNN.
Qed.

Lemma ofZ2 : s_of_Z FS 2 = 2%:R.
Proof. by []. Qed.

Lemma ofZ_mul a b : s_of_Z FS (a * b) = s_of_Z FS a * s_of_Z FS b.
Proof. by rewrite /= Z2int_mul intrM. Qed.

Lemma nth_map_seq {A} (f : nat -> A) n i (dflt : A) : (i < n)%N ->
  List.nth i (List.map f (List.seq 0 n)) dflt = f i.
Proof.
  move=> Hi.
  rewrite (List.nth_indep _ dflt (f 0%N)); last by rewrite List.map_length List.seq_length; apply/ssrnat.ltP.
  by rewrite List.map_nth List.seq_nth //; apply/ssrnat.ltP.
Qed.

(* ---------- vectors as lists of length D ---------- *)
Lemma nth_map2 (f : F -> F -> F) (u v : list F) d :
  (d < List.length u)%N -> (d < List.length v)%N ->
  List.nth d (map2 f u v) 0 = f (List.nth d u 0) (List.nth d v 0).
Proof.
  elim: u v d => [|a u IH] [|b v] [|d] //=.
  by move=> H1 H2; apply: IH.
Qed.

Lemma length_map2 (f : F -> F -> F) (u v : list F) D :
  List.length u = D -> List.length v = D -> List.length (map2 f u v) = D.
Proof.
  elim: u v D => [|a u IH] [|b v] [|D] //= [H1] [H2].
  by rewrite (IH v D).
Qed.

(* ---------- generic folds and list/seq glue ---------- *)
Lemma foldl_addA {A} (f : A -> F) (l : list A) a :
  List.fold_left (fun acc k => acc + f k) l a = a + \sum_(k <- l) f k.
Proof.
  elim: l a => [|k l IH] a /=; first by rewrite big_nil addr0.
  by rewrite IH big_cons addrA.
Qed.

Lemma size_length {A} (l : list A) : size l = List.length l.
Proof. by elim: l => //= a l ->. Qed.

Lemma nth_List {A} (l : list A) d i : List.nth i l d = nth d l i.
Proof. by elim: l i => [|a l IH] [|i] //=. Qed.

Lemma sum_list_index (u : list F) (f : F -> F) n : List.length u = n ->
  \sum_(y <- u) f y = \sum_(d < n) f (List.nth d u 0).
Proof.
  move=> Hn; rewrite (big_nth 0) size_length Hn big_mkord.
  by apply: eq_bigr => d _; rewrite nth_List.
Qed.

Lemma squared_sum (u : list F) n : List.length u = n ->
  squared FS u = \sum_(d < n) (List.nth d u 0) ^+ 2.
Proof.
  move=> Hn; rewrite /squared (foldl_addA (fun y => y * y)) add0r (sum_list_index _ Hn).
  by apply: eq_bigr => d _; rewrite expr2.
Qed.

Lemma combine_zip {A B} (u : list A) (v : list B) : List.combine u v = zip u v.
Proof. by elim: u v => [|a u IH] [|b v] //=; rewrite IH. Qed.

Lemma dot_sum (u v : list F) n : List.length u = n -> List.length v = n ->
  dot FS u v = \sum_(d < n) List.nth d u 0 * List.nth d v 0.
Proof.
  move=> Hu Hv; rewrite /dot (foldl_addA (fun ab => ab.1 * ab.2)) add0r combine_zip.
  rewrite (big_nth (0, 0)) size_zip !size_length Hu Hv minnn big_mkord.
  apply: eq_bigr => d _; rewrite nth_zip ?size_length ?Hu ?Hv //=.
  by rewrite !nth_List.
Qed.

(* ---------- the inputs of a sample as matrices ---------- *)
Section Inputs.
Variables (nE nL nD : nat).
Variables (x : list F) (sig : list (list Z)) (shifts : list (list F)) (masses : list F).
Hypothesis Hsig : List.length sig = nE.
Hypothesis Hshift : forall e, (e < nE)%N -> List.length (List.nth e shifts nil) = nD.

Definition Sm : 'M[F]_(nE, nL) := \matrix_(e, l) s_of_Z FS (sig_at sig e l).
Definition xr : 'rV[F]_nE := \row_e List.nth e x 0.
Definition Pm : 'M[F]_(nE, nD) := \matrix_(e, d) List.nth d (List.nth e shifts nil) 0.
Definition m2r : 'rV[F]_nE := \row_e (List.nth e masses 0) ^+ 2.

(* C08: the L matrix of the model is S^T X S *)
Theorem l_matrix_bridge : mx_of nL (compute_l_matrix FS x sig nL) = Lm Sm xr.
Proof.
  apply/matrixP => i j; rewrite mxE l_matrix_entry; [|exact/ssrnat.ltP|exact/ssrnat.ltP].
  rewrite /l_entry foldl_add add0r Hsig sum_seq0 Lm_entry.
  apply: eq_bigr => e _; rewrite !mxE.
  rewrite -[s_mul FS]/( *%R) -[s_zero FS]/(0 : F) ofZ_mul.
  case: (leqP i j) => Hij.
  - have -> : Nat.min i j = i by apply: PeanoNat.Nat.min_l; apply/ssrnat.leP.
    have -> : Nat.max i j = j by apply: PeanoNat.Nat.max_r; apply/ssrnat.leP.
    by rewrite mulrAC.
  - have -> : Nat.min i j = j by apply: PeanoNat.Nat.min_r; apply/ssrnat.leP/ltnW.
    have -> : Nat.max i j = i by apply: PeanoNat.Nat.max_l; apply/ssrnat.leP/ltnW.
    rewrite -[s_of_Z FS _]/(_ : F). ring.
Qed.

(* folds of vector operations, componentwise *)
Lemma length_vscale (u : list F) c : List.length (vscale FS u c) = List.length u.
Proof. exact: List.map_length. Qed.

Lemma nth_vscale (u : list F) c d : (d < List.length u)%N ->
  List.nth d (vscale FS u c) 0 = List.nth d u 0 * c.
Proof.
  move=> Hd; rewrite /vscale.
  rewrite (List.nth_indep _ 0 ((fun y => y * c) 0)); last by rewrite List.map_length; apply/ssrnat.ltP.
  by rewrite (List.map_nth (fun y => s_mul FS y c)).
Qed.

Lemma fold_vadd_scale (c : nat -> F) (l : list nat) (acc : list F) :
  (forall e, List.In e l -> (e < nE)%N) -> List.length acc = nD ->
  let r := List.fold_left (fun a e => vadd FS a (vscale FS (List.nth e shifts nil) (c e))) l acc in
  List.length r = nD /\
  forall d, (d < nD)%N ->
    List.nth d r 0 = List.nth d acc 0 + \sum_(e <- l) List.nth d (List.nth e shifts nil) 0 * c e.
Proof.
  elim: l acc => [|e l IH] acc Hl Hacc /=.
    by split=> // d _; rewrite big_nil addr0.
  have He : (e < nE)%N by apply: Hl; left.
  have Hs : List.length (vscale FS (List.nth e shifts nil) (c e)) = nD by rewrite length_vscale Hshift.
  have Ha : List.length (vadd FS acc (vscale FS (List.nth e shifts nil) (c e))) = nD.
    exact: length_map2.
  have [|H1 H2] := IH _ _ Ha; first by move=> e' He'; apply: Hl; right.
  split=> // d Hd; rewrite H2 // big_cons addrA; congr (_ + _).
  rewrite /vadd nth_map2 ?Hacc ?Hs // nth_vscale ?Hshift //.
Qed.

Lemma nth_vzero d : List.nth d (vzero FS nD) 0 = 0 :> F.
Proof. by rewrite /vzero List.nth_repeat. Qed.

(* C09: the u vectors of the model are S^T X P *)
Theorem u_vectors_bridge (l : 'I_nL) (d : 'I_nD) :
  List.nth d (List.nth l (compute_u_vectors FS nD x sig nL shifts) nil) 0 = Um Sm xr Pm l d.
Proof.
  rewrite /compute_u_vectors nth_map_seq // Hsig.
  have Hin : forall e, List.In e (List.seq 0 nE) -> (e < nE)%N by move=> e /List.in_seq [_ /ssrnat.ltP].
  have Hz : List.length (vzero FS nD) = nD by rewrite /vzero List.repeat_length.
  have [_ H] := @fold_vadd_scale (fun e => s_mul FS (s_of_Z FS (sig_at sig e l)) (List.nth e x (s_zero FS)))
                   (List.seq 0 nE) (vzero FS nD) Hin Hz.
  rewrite H // nth_vzero add0r sum_seq0 Um_entry.
  by apply: eq_bigr => e _; rewrite !mxE /= mulrC.
Qed.

(* ---------- V polynomial ---------- *)
Variables (us : list (list F)) (linv : list F).
Hypothesis Hx : List.length x = nE.
Hypothesis Hm : List.length masses = nE.
Hypothesis Hsh : List.length shifts = nE.
Hypothesis Hus : forall l, (l < nL)%N -> List.length (List.nth l us nil) = nD.

Definition Uv : 'M[F]_(nL, nD) := \matrix_(l, d) List.nth d (List.nth l us nil) 0.
Definition INV : 'M[F]_nL := mx_of nL linv.
Hypothesis INVsym : INV^T = INV.

Lemma foldl_ext {A B} (f g : A -> B -> A) (l : list B) a :
  (forall a0 k, List.In k l -> f a0 k = g a0 k) -> List.fold_left f l a = List.fold_left g l a.
Proof.
  elim: l a => [|k l IH] a H //=; rewrite H; last by left.
  by apply: IH => a0 k' Hk; apply: H; right.
Qed.

(* sum_e x_e (m_e^2 + |p_e|^2), accumulated over the zipped inputs *)
Lemma base_bridge :
  List.fold_left (fun acc (xms : F * F * list F) =>
       let '(xe, m, p) := xms in s_add FS acc (s_mul FS (s_add FS (s_mul FS m m) (squared FS p)) xe))
     (List.combine (List.combine x masses) shifts) (s_zero FS)
  = base xr m2r Pm.
Proof.
  rewrite (@foldl_ext _ _ _ (fun acc (xms : F * F * list F) =>
             acc + (xms.1.2 * xms.1.2 + squared FS xms.2) * xms.1.1)); last by move=> a0 [[xe m] p0].
  rewrite (foldl_addA (fun xms : F * F * list F => (xms.1.2 * xms.1.2 + squared FS xms.2) * xms.1.1)) add0r.
  rewrite !combine_zip (big_nth (0, 0, nil)) !size_zip !size_length Hx Hm Hsh !minnn big_mkord.
  apply: eq_bigr => e _.
  rewrite !nth_zip ?size_zip ?size_length ?Hx ?Hm ?Hsh ?minnn //=.
  rewrite -!nth_List (squared_sum (Hshift (ltn_ord e))) !mxE mulrC expr2.
  by congr (_ * (_ + _)); apply: eq_bigr => d _; rewrite !mxE.
Qed.

(* the quadratic form: diagonal part plus twice the strict upper triangle *)
Lemma sym_double_sum (a : 'I_nL -> 'I_nL -> F) : (forall i j, a i j = a j i) ->
  \sum_(i < nL) \sum_(j < nL) a i j = \sum_(i < nL) a i i + \sum_(i < nL) \sum_(j < nL | (i < j)%N) (a i j + a i j).
Proof.
  move=> Hsym.
  have E : forall i : 'I_nL, \sum_(j < nL) a i j = a i i + \sum_(j < nL | (i < j)%N) a i j + \sum_(j < nL | (j < i)%N) a i j.
    move=> i; rewrite (bigD1 i) //= -addrA; congr (_ + _).
    rewrite (bigID (fun j : 'I_nL => (i < j)%N)) /=; congr (_ + _); apply: eq_bigl => j.
    - have [Hlt|Hge] := ltnP i j; rewrite ?andbT ?andbF //.
      by apply/eqP => Eji; rewrite Eji ltnn in Hlt.
    - by rewrite -leqNgt ltn_neqAle -val_eqE.
  rewrite (eq_bigr _ (fun i _ => E i)) !big_split /= -addrA; congr (_ + _).
  rewrite [X in _ + X = _](exchange_big_dep xpredT) //=.
  rewrite -big_split /=; apply: eq_bigr => i _.
  rewrite -big_split /=; apply: eq_bigr => j _.
  by rewrite [a j i]Hsym.
Qed.

Lemma INV_entry (i j : 'I_nL) : mget FS nL linv i j = INV i j.
Proof. by rewrite /INV mxE. Qed.

Lemma tr_quadratic :
  \tr (Uv^T *m INV *m Uv) = \sum_(i < nL) \sum_(j < nL) INV i j * (\sum_(d < nD) Uv i d * Uv j d).
Proof.
  rewrite /mxtrace.
  rewrite (eq_bigr (fun d : 'I_nD => \sum_(i < nL) \sum_(j < nL) INV i j * (Uv i d * Uv j d))); last first.
    move=> d _; rewrite mxE (eq_bigr (fun j : 'I_nL => \sum_(i < nL) INV i j * (Uv i d * Uv j d))); last first.
      move=> j _; rewrite mxE big_distrl /=; apply: eq_bigr => i _.
      rewrite [(Uv^T) _ _]mxE. ring.
    by rewrite exchange_big.
  rewrite exchange_big /=; apply: eq_bigr => i _.
  rewrite exchange_big /=; apply: eq_bigr => j _.
  by rewrite mulr_sumr.
Qed.

(* C09: the V polynomial of the model *)
Theorem v_polynomial_bridge :
  compute_v_polynomial FS x us nL linv shifts masses = base xr m2r Pm - \tr (Uv^T *m INV *m Uv).
Proof.
  rewrite /compute_v_polynomial base_bridge tr_quadratic.
  set a := fun i j : 'I_nL => INV i j * (\sum_(d < nD) Uv i d * Uv j d).
  have Ha : forall i j, a i j = a j i.
    move=> i j; rewrite /a -[INV in LHS]INVsym mxE; congr (_ * _).
    by apply: eq_bigr => d _; rewrite mulrC.
  rewrite (sym_double_sum Ha) opprD addrA.
  (* the inner double loop *)
  set r1 := List.fold_left _ (List.seq 0 nL) (base xr m2r Pm).
  have E2 : forall res, List.fold_left (fun res i =>
       List.fold_left (fun res' j => s_sub FS res'
          (s_mul FS (s_mul FS (s_of_Z FS 2) (dot FS (List.nth i us nil) (List.nth j us nil))) (mget FS nL linv i j)))
         (List.seq (i + 1) (nL - (i + 1))) res) (List.seq 0 nL) res
     = res - \sum_(i < nL) \sum_(j < nL | (i < j)%N) (a i j + a i j).
    move=> res.
    rewrite (@foldl_ext _ _ _ (fun res0 i => res0 - (if (i < nL)%N then
        \sum_(i + 1 <= j < nL) (2%:R * dot FS (List.nth i us nil) (List.nth j us nil)) * mget FS nL linv i j else 0))).
      rewrite foldl_sub sum_seq0; congr (_ - _); apply: eq_bigr => i _.
      rewrite ltn_ord (big_nat_widenl _ 0%N) // big_mkord.
      apply: eq_big => [j|j Hij]; first by rewrite addn1.
      rewrite addn1 in Hij.
      rewrite INV_entry (dot_sum (Hus (ltn_ord i)) (Hus (ltn_ord j))) /a.
      rewrite (eq_bigr (fun d : 'I_nD => Uv i d * Uv j d)); last by move=> d _; rewrite !mxE.
      by rewrite -mulrDr -mulr2n mulr_natl mulrC.
    move=> a0 i /List.in_seq [_ /ssrnat.ltP Hi]; rewrite Hi foldl_sub.
    by congr (_ - _); rewrite seq_iota /index_iota.
  apply: etrans (E2 r1) _; congr (_ - _).
  (* the diagonal loop *)
  rewrite /r1 (@foldl_ext _ _ _ (fun res l => res - (if (l < nL)%N then squared FS (List.nth l us nil) * mget FS nL linv l l else 0))).
    rewrite foldl_sub sum_seq0; congr (_ - _); apply: eq_bigr => l _.
    rewrite ltn_ord INV_entry (squared_sum (Hus (ltn_ord l))) /a mulrC; congr (_ * _).
    by apply: eq_bigr => d _; rewrite !mxE expr2.
  by move=> a0 l /List.in_seq [_ /ssrnat.ltP ->].
Qed.

(* ---------- loop momenta and shift ---------- *)
Variables (qs : list (list F)) (qtinv : list F).
Hypothesis Hqs : List.length qs = nL.
Hypothesis Husl : List.length us = nL.
Hypothesis Hq : forall l, (l < nL)%N -> List.length (List.nth l qs nil) = nD.

Definition Qv : 'M[F]_(nL, nD) := \matrix_(l, d) List.nth d (List.nth l qs nil) 0.
Definition QTI : 'M[F]_nL := mx_of nL qtinv.

Lemma nth_vsub (u v : list F) d : (d < List.length u)%N -> (d < List.length v)%N ->
  List.nth d (vsub FS u v) 0 = List.nth d u 0 - List.nth d v 0.
Proof. by move=> H1 H2; rewrite /vsub nth_map2. Qed.

Lemma fold_momenta (c1 c2 : nat -> F) (l : list (nat * (list F * list F))) (acc : list F) :
  (forall k, List.In k l -> List.length k.2.1 = nD /\ List.length k.2.2 = nD) -> List.length acc = nD ->
  let r := List.fold_left (fun a (lqu : nat * (list F * list F)) =>
             let '(l', (q, u)) := lqu in
             vsub FS (vadd FS a (vscale FS q (c1 l'))) (vscale FS u (c2 l'))) l acc in
  List.length r = nD /\
  forall d, (d < nD)%N ->
    List.nth d r 0 = List.nth d acc 0 +
       \sum_(k <- l) (List.nth d k.2.1 0 * c1 k.1 - List.nth d k.2.2 0 * c2 k.1).
Proof.
  elim: l acc => [|[l' [q u]] l IH] acc Hl Hacc /=.
    by split=> // d _; rewrite big_nil addr0.
  have [Hq1 Hu1] : List.length q = nD /\ List.length u = nD by apply: (Hl (l', (q, u))); left.
  have Ha : List.length (vsub FS (vadd FS acc (vscale FS q (c1 l'))) (vscale FS u (c2 l'))) = nD.
    by apply: length_map2; [apply: length_map2 => //; rewrite length_vscale|rewrite length_vscale].
  have [|H1 H2] := IH _ _ Ha; first by move=> k Hk; apply: Hl; right.
  split=> // d Hd; rewrite H2 // big_cons /= addrA; congr (_ + _).
  rewrite nth_vsub ?length_vscale ?Hu1 //; last first.
    by rewrite (@length_map2 _ _ _ nD) // length_vscale.
  rewrite /vadd nth_map2 ?Hacc ?length_vscale ?Hq1 // !nth_vscale ?Hq1 ?Hu1 //.
  by rewrite addrA.
Qed.

(* C10: the loop momenta of the model *)
Theorem loop_momenta_bridge (v lam : F) (l : 'I_nL) (d : 'I_nD) :
  let pref := Num.sqrt (v / lam / 2%:R) in
  List.nth d (List.nth l (compute_loop_momenta FS nD v lam nL qtinv qs linv us) nil) 0 =
  (pref *: (QTI *m Qv) - INV *m Uv) l d.
Proof.
  move=> pref; rewrite /compute_loop_momenta nth_map_seq // Hqs.
  set lst := List.combine (List.seq 0 nL) (List.combine qs us).
  have Hl : forall k, List.In k lst -> List.length k.2.1 = nD /\ List.length k.2.2 = nD.
    move=> [l' [q u]] /= Hin.
    have Hin2 := List.in_combine_r _ _ _ _ Hin.
    have [i [Hi Hnth]] := List.In_nth _ _ (nil, nil) Hin2.
    rewrite List.combine_nth ?Hqs ?Husl // in Hnth; case: Hnth => <- <-.
    rewrite List.combine_length Hqs Husl PeanoNat.Nat.min_id in Hi.
    by split; [apply: Hq|apply: Hus]; apply/ssrnat.ltP.
  have Hz : List.length (vzero FS nD) = nD by rewrite /vzero List.repeat_length.
  have [_ H] := @fold_momenta (fun l' => s_mul FS (s_sqrt FS (s_div FS (s_div FS v lam) (s_of_Z FS 2))) (mget FS nL qtinv l l'))
                  (fun l' => mget FS nL linv l l') lst (vzero FS nD) Hl Hz.
  rewrite H // nth_vzero add0r.
  rewrite /lst !combine_zip seq_iota (big_nth (0%N, (nil, nil))) !size_zip size_iota !size_length.
  rewrite Hqs Husl !minnn big_mkord.
  rewrite !mxE mulr_sumr -sumrB; apply: eq_bigr => l' _.
  rewrite !nth_zip ?size_zip ?size_iota ?size_length ?Hqs ?Husl ?minnn //=.
  rewrite nth_iota // add0n -!nth_List !mxE.
  have -> : (Pos.to_nat 2)%:~R = 2%:R :> F by [].
  rewrite -/pref. ring.
Qed.

End Inputs.

(* ---------- the shift L^-1 u ---------- *)
Section Shift.
Variables (nL nD : nat) (us : list (list F)) (linv : list F).
Hypothesis Husl : List.length us = nL.
Hypothesis Hus : forall l, (l < nL)%N -> List.length (List.nth l us nil) = nD.

Lemma fold_shift (c : nat -> F) (l : list (nat * list F)) (acc : list F) :
  (forall k, List.In k l -> List.length k.2 = nD) -> List.length acc = nD ->
  let r := List.fold_left (fun a (lu : nat * list F) => vadd FS a (vscale FS (snd lu) (c (fst lu)))) l acc in
  List.length r = nD /\
  forall d, (d < nD)%N -> List.nth d r 0 = List.nth d acc 0 + \sum_(k <- l) List.nth d k.2 0 * c k.1.
Proof.
  elim: l acc => [|[l' u] l IH] acc Hl Hacc /=.
    by split=> // d _; rewrite big_nil addr0.
  have Hu1 : List.length u = nD by apply: (Hl (l', u)); left.
  have Ha : List.length (vadd FS acc (vscale FS u (c l'))) = nD by apply: length_map2 => //; rewrite length_vscale.
  have [|H1 H2] := IH _ _ Ha; first by move=> k Hk; apply: Hl; right.
  split=> // d Hd; rewrite H2 // big_cons /= addrA; congr (_ + _).
  by rewrite /vadd nth_map2 ?Hacc ?length_vscale ?Hu1 // nth_vscale ?Hu1.
Qed.

Theorem shift_bridge (l : 'I_nL) (d : 'I_nD) :
  List.nth d (List.nth l (compute_only_shift FS nD nL linv us) nil) 0 = (INV nL linv *m Uv nL nD us) l d.
Proof.
  rewrite /compute_only_shift nth_map_seq // Husl.
  set lst := List.combine (List.seq 0 nL) us.
  have Hl : forall k, List.In k lst -> List.length k.2 = nD.
    move=> [l' u] /= Hin.
    have [i [Hi Hnth]] := List.In_nth _ _ (0%N, nil) Hin.
    rewrite List.combine_nth ?List.seq_length ?Husl // in Hnth; case: Hnth => _ <-.
    rewrite List.combine_length List.seq_length Husl PeanoNat.Nat.min_id in Hi.
    by apply: Hus; apply/ssrnat.ltP.
  have Hz : List.length (vzero FS nD) = nD by rewrite /vzero List.repeat_length.
  have [_ H] := @fold_shift (fun l' => mget FS nL linv l l') lst (vzero FS nD) Hl Hz.
  rewrite H // /vzero List.nth_repeat add0r.
  rewrite /lst combine_zip seq_iota (big_nth (0%N, nil)) size_zip size_iota size_length Husl minnn big_mkord.
  rewrite !mxE; apply: eq_bigr => l' _.
  rewrite nth_zip ?size_iota ?size_length ?Husl //= nth_iota // add0n -!nth_List !mxE.
  by rewrite mulrC.
Qed.

End Shift.

(* ---------- C10 on the model: the energy identity for the model's loop momenta ---------- *)
Section ModelEnergy.
Variables (nE p nD : nat).
Let nL := p.+1.
Variables (x : list F) (sig : list (list Z)) (shifts : list (list F)) (masses : list F).
Variables (qs : list (list F)) (lam : F).
Hypothesis Hsig : List.length sig = nE.
Hypothesis Hx : List.length x = nE.
Hypothesis Hm : List.length masses = nE.
Hypothesis Hsh : List.length shifts = nE.
Hypothesis Hshift : forall e, (e < nE)%N -> List.length (List.nth e shifts nil) = nD.
Hypothesis Hqs : List.length qs = nL.
Hypothesis Hq : forall l, (l < nL)%N -> List.length (List.nth l qs nil) = nD.

Let lm := compute_l_matrix FS x sig nL.
Hypothesis Hpiv : forall c : 'I_nL, 0 < CholSpec.pivot FS nL lm c.
Let dc := decomp_fields FS nL lm.
Let us := compute_u_vectors FS nD x sig nL shifts.
Let vv := compute_v_polynomial FS x us nL (d_inverse dc) shifts masses.
Let ks := compute_loop_momenta FS nD vv lam nL (d_q_transposed_inverse dc) qs (d_inverse dc) us.
Hypothesis Hpos : 0 <= vv / lam / 2%:R.

Let S := Sm nE nL sig.
Let xv := xr nE x.
Let P := Pm nE nD shifts.
Let m2 := m2r nE masses.
Let Km : 'M[F]_(nL, nD) := \matrix_(l, d) List.nth d (List.nth l ks nil) 0.

Lemma us_shape : List.length us = nL /\ forall l, (l < nL)%N -> List.length (List.nth l us nil) = nD.
Proof.
  rewrite /us /compute_u_vectors List.map_length List.seq_length; split=> // l Hl.
  rewrite nth_map_seq // Hsig.
  have Hin : forall e, List.In e (List.seq 0 nE) -> (e < nE)%N by move=> e /List.in_seq [_ /ssrnat.ltP].
  have Hz : List.length (vzero FS nD) = nD by rewrite /vzero List.repeat_length.
  by have [H _] := @fold_vadd_scale nE nD shifts Hshift
       (fun e => s_mul FS (s_of_Z FS (sig_at sig e l)) (List.nth e x (s_zero FS))) (List.seq 0 nE) (vzero FS nD) Hin Hz.
Qed.

Theorem model_energy_identity :
  \sum_(e < nE) xv 0 e * (\sum_(d < nD) ((S *m Km + P) e d) ^+ 2 + m2 0 e)
  = vv + (vv / lam / 2%:R) * (\sum_(l < nL) \sum_(d < nD) (List.nth d (List.nth l qs nil) 0) ^+ 2).
Proof.
  have [Husl Hus] := us_shape.
  have EL : mx_of nL lm = Lm S xv by exact: l_matrix_bridge.
  have Msym : forall i j : 'I_nL, mx_of nL lm i j = mx_of nL lm j i.
    by move=> i j; rewrite EL -{1}(Lm_sym S xv) mxE.
  have [E1 E2 [E3 E3'] E4 _] := decomp_fields_correct Msym Hpiv.
  have HQQ : Qmx nL lm *m (Qmx nL lm)^T = Lm S xv by rewrite -EL; exact: cholesky_correct.
  have [HQ1 HQ2] := IQ_inverse Hpiv.
  have Qunit : Qmx nL lm \in unitmx by case/mulmx1_unit: HQ2.
  have HLu : Lm S xv \in unitmx by rewrite -HQQ unitmx_mul unitmx_tr Qunit.
  have EINV : mx_of nL (d_inverse dc) = invmx (Lm S xv).
    by rewrite -[LHS]mulmx1 -(mulmxV HLu) mulmxA -EL E3 mul1mx.
  have EQTI : mx_of nL (d_q_transposed_inverse dc) = invmx (Qmx nL lm)^T.
    have Ut : (Qmx nL lm)^T \in unitmx by rewrite unitmx_tr.
    by rewrite -[LHS]mulmx1 -(mulmxV Ut) mulmxA E2 mul1mx.
  have EU : Uv nL nD us = Um S xv P.
    by apply/matrixP => l d; rewrite [LHS]mxE; exact: u_vectors_bridge.
  have INVsym : (INV nL (d_inverse dc))^T = INV nL (d_inverse dc) by exact: E4.
  have EV : vv = Vpoly S xv m2 P.
    rewrite /vv (v_polynomial_bridge Hshift Hx Hm Hsh Hus INVsym) /Vpoly.
    by rewrite /INV EINV EU.
  have EK : Km = Kmom S xv m2 P (Qmx nL lm) (Qv nL nD qs) lam.
    apply/matrixP => l d; rewrite [LHS]mxE (loop_momenta_bridge (d_inverse dc) Hus (d_q_transposed_inverse dc) Hqs Husl Hq) /Kmom.
    by rewrite /QTI /INV EQTI EINV EU EV.
  have Hpos' : 0 <= Vpoly S xv m2 P / lam / 2%:R by rewrite -EV.
  have := @energy_identity F nE nL nD S xv m2 P (Qmx nL lm) (Qv nL nD qs) lam HQQ Qunit.
  rewrite /edge_mom -EK -EV sqr_sqrtr // => ->.
  by congr (_ + _ * _); apply: eq_bigr => l _; apply: eq_bigr => d _; rewrite mxE.
Qed.

End ModelEnergy.

End Bridge.
