(* Proofs/GammaProofs.v -- C12: what holds of the Gamma quantile for ALL behaviours of the
   external functions (libm, statrs): the wrapper, positivity, the convergence exit. *)
From Coq Require Import ZArith NArith List Bool Floats Lia.
From MT Require Import Model.Scalar Model.Gamma.
Import ListNotations.
Open Scope float_scope.

Lemma ltb_0_pos r : (0 <? r) = true ->
  (exists m e, Prim2SF r = S754_finite false m e) \/ Prim2SF r = S754_infinity false.
Proof.
  rewrite ltb_spec. unfold SFltb, SFcompare.
  replace (Prim2SF 0) with (S754_zero false) by reflexivity.
  destruct (Prim2SF r) as [s|s| |s m e]; try discriminate.
  - destruct s; [discriminate|]. intros _. right. reflexivity.
  - destruct s; [discriminate|]. intros _. left. eauto.
Qed.

Lemma abs_lt_inf_not_inf r : (abs r <? infinity) = true -> Prim2SF r <> S754_infinity false.
Proof.
  rewrite ltb_spec, abs_spec. intros H Hr. rewrite Hr in H.
  replace (Prim2SF infinity) with (S754_infinity false) in H by reflexivity.
  cbn in H. discriminate.
Qed.

(* a value accepted by the wrapper is a positive finite binary64 number *)
Lemma is_value_spec r : is_value r = true -> exists m e, Prim2SF r = S754_finite false m e.
Proof.
  unfold is_value. rewrite andb_true_iff. intros [H1 H2].
  destruct (ltb_0_pos r H2) as [H|H]; [exact H|].
  exfalso. exact (abs_lt_inf_not_inf r H1 H).
Qed.

Lemma is_value_not_nan r : is_value r = true -> (r =? r) = true.
Proof.
  intros H. destruct (is_value_spec r H) as [m [e Hr]].
  rewrite eqb_spec, Hr. unfold SFeqb, SFcompare.
  rewrite Z.compare_refl, Pos.compare_refl. reflexivity.
Qed.

Section Gamma.
Variables (ln exp : float -> float) (powf : float -> float -> float) (gam : float -> float).
Variables (glr gur : float -> float -> option float).

Notation impl := (inverse_gamma_lr_impl ln exp powf gam glr gur).
Notation wrapper := (inverse_gamma_lr_f64 ln exp powf gam glr gur).
Notation iter := (iterate exp powf glr gur).

(* the wrapper: Ok(lambda) only for a finite positive result, everything else is Err *)
Lemma wrapper_spec a p n eps :
  match wrapper a p n eps with
  | Ok (Some lam) => impl a p n eps = Ok lam /\ exists m e, Prim2SF lam = S754_finite false m e
  | Ok None => exists r, impl a p n eps = Ok r /\ is_value r = false
  | Panic w => impl a p n eps = Panic w
  end.
Proof.
  unfold inverse_gamma_lr_f64. destruct (impl a p n eps) as [r|w]; [|reflexivity].
  destruct (is_value r) eqn:Hv.
  - split; [reflexivity|apply is_value_spec, Hv].
  - exists r. split; [reflexivity|exact Hv].
Qed.

(* the convergence exit: the returned point passed the guard (it is 1e-16 or not <= 0) and the
   oracle's value there is within eps*2^-52 of the target, on the side selected by p <= 1/2 *)
Lemma iterate_conv fuel a p q ga eps x0 x :
  iter fuel a p q ga eps x0 = Ok (x, EXIT_CONV) ->
  (x = 0x1.cd2b297d889bcp-54 \/ (x <=? 0) = false) /\
  exists g, (if p <=? 0x1p-1 then glr a x else gur a x) = Some g /\
            (abs (if p <=? 0x1p-1 then g - p else - (g - q)) <? eps * 0x1p-52) = true.
Proof.
  revert x0; induction fuel as [|k IH]; intros x0; cbn [iterate]; [intros H; inversion H|].
  set (xg := if x0 <=? 0 then 0x1.cd2b297d889bcp-54 else x0).
  destruct (if p <=? 0x1p-1 then glr a xg else gur a xg) as [g|] eqn:Hg; [|discriminate].
  destruct (abs (if p <=? 0x1p-1 then g - p else - (g - q)) <? eps * 0x1p-52) eqn:Hc.
  - intros H; inversion H; subst x. split.
    + unfold xg. destruct (x0 <=? 0) eqn:Hx; [left; reflexivity|right; exact Hx].
    + exists g. split; [exact Hg|exact Hc].
  - apply IH.
Qed.

(* exits are tagged faithfully: the fuel exit returns the last iterate unguarded *)
Lemma iterate_zero_fuel a p q ga eps x0 : iter 0 a p q ga eps x0 = Ok (x0, EXIT_FUEL).
Proof. reflexivity. Qed.

End Gamma.
