(* Proofs/Spanning.v -- C03: what the model's mass-momentum-spanning flag says, in words of
   the property: all massive edges of the graph lie in the subset, and one connected component
   of the subset touches every external vertex. *)
From Coq Require Import ZArith NArith List Bool Lia Arith Permutation Relations.
From MT Require Import Model.Scalar Model.Graph Proofs.Components.
Import ListNotations.
Local Open Scope nat_scope.

Section Span.
Context {C : Type}.
Notation ie := (ie C).

Definition touches_all (ext : list N) (S : list ie) : Prop :=
  exists e0, In e0 S /\
    forall v, In v ext -> exists e, In e S /\ conn S e0 e /\ contains_vertex (snd e) v = true.

Lemma momentum_spanning_iff (ext : list N) (S : list ie) : NoDup S ->
  existsb (fun c => forallb (fun v => existsb (fun p => contains_vertex (snd p) v) c) ext) (components S) = true
  <-> touches_all ext S.
Proof.
  intros Hnd. destruct (components_are_classes S Hnd) as [Hp [Hne Hcl]]. cbv zeta in *.
  set (cs := components S) in *.
  assert (Hndc : NoDup (concat cs)) by (apply (Permutation_NoDup (Permutation_sym Hp)), Hnd).
  assert (HinS : forall c x, In c cs -> In x c -> In x S).
  { intros c x Hc Hx. apply (Permutation_in x Hp). apply in_concat. exists c. split; assumption. }
  split.
  - intros H. apply existsb_exists in H. destruct H as [c [Hc Hall]].
    destruct c as [|e0 c'] eqn:Ec; [exfalso; apply (Hne [] Hc); reflexivity|]. rewrite <- Ec in *.
    assert (He0 : In e0 c) by (rewrite Ec; left; reflexivity).
    exists e0. split; [apply (HinS c e0 Hc He0)|].
    intros v Hv. rewrite forallb_forall in Hall. specialize (Hall v Hv).
    apply existsb_exists in Hall. destruct Hall as [p [Hp1 Hp2]].
    exists p. split; [apply (HinS c p Hc Hp1)|]. split; [|exact Hp2].
    apply Hcl; [apply (HinS c e0 Hc He0)|apply (HinS c p Hc Hp1)|].
    exists c. repeat split; assumption.
  - intros [e0 [He0 Hall]].
    assert (Hself : same_comp cs e0 e0) by (apply Hcl; [exact He0|exact He0|apply rt_refl]).
    destruct Hself as [c [Hc [Hec _]]].
    apply existsb_exists. exists c. split; [exact Hc|].
    apply forallb_forall. intros v Hv. destruct (Hall v Hv) as [e [HeS [Hconn Hcv]]].
    apply existsb_exists. exists e. split; [|exact Hcv].
    apply (Hcl e0 e He0 HeS) in Hconn. destruct Hconn as [c' [Hc' [He0c' Hec']]].
    rewrite (in_unique_comp cs c c' e0 Hndc Hc Hc' Hec He0c'). exact Hec'.
Qed.

Lemma massive_count_iff (all S : list ie) : NoDup all -> NoDup S -> incl S all ->
  (count_massive S = count_massive all <->
   forall p, In p all -> e_massive (snd p) = true -> In p S).
Proof.
  intros Hna Hns Hi. unfold count_massive.
  set (f := fun p : ie => e_massive (snd p)).
  assert (Hfi : incl (filter f S) (filter f all)).
  { intros p Hp. apply filter_In in Hp. apply filter_In. split; [apply Hi; tauto|tauto]. }
  assert (Hn1 : NoDup (filter f S)) by (apply NoDup_filter, Hns).
  assert (Hn2 : NoDup (filter f all)) by (apply NoDup_filter, Hna).
  split.
  - intros Hlen p Hp Hm.
    assert (Hrev : incl (filter f all) (filter f S)).
    { apply NoDup_length_incl; [exact Hn1|apply Nat.eq_le_incl; symmetry; exact Hlen|exact Hfi]. }
    assert (Hin : In p (filter f all)) by (apply filter_In; split; assumption).
    apply Hrev in Hin. apply filter_In in Hin. tauto.
  - intros Hall. apply Nat.le_antisymm.
    + apply NoDup_incl_length; assumption.
    + apply NoDup_incl_length; [exact Hn2|].
      intros p Hp. apply filter_In in Hp. destruct Hp as [Hp1 Hp2].
      apply filter_In. split; [apply Hall; assumption|exact Hp2].
Qed.

Lemma count_massive_combine (edges : list (edge C)) a :
  count_massive (combine (seq a (length edges)) edges) = length (filter (fun e => e_massive e) edges).
Proof.
  unfold count_massive. revert a; induction edges as [|e l IH]; intros a; [reflexivity|].
  cbn [length seq combine filter snd]. destruct (e_massive e); cbn [length]; rewrite IH; reflexivity.
Qed.

(* the flag stored in the table, spelled out *)
Theorem spanning_semantics (edges : list (edge C)) (ext : list N) (s : sid) :
  let all := combine (seq 0 (length edges)) edges in
  let sub := sub_edges edges s in
  is_mass_momentum_spanning (length (filter (fun e => e_massive e) edges)) ext sub = true <->
  (forall p, In p all -> e_massive (snd p) = true -> In p sub) /\ touches_all ext sub.
Proof.
  intros all sub. unfold is_mass_momentum_spanning. rewrite andb_true_iff, Nat.eqb_eq.
  rewrite <- (count_massive_combine edges 0). fold all.
  assert (Hna : NoDup all) by apply NoDup_combine_seq.
  assert (Hns : NoDup sub) by apply sub_edges_NoDup.
  assert (Hi : incl sub all) by (intros p Hp; unfold sub, sub_edges in Hp; apply filter_In in Hp; tauto).
  rewrite (massive_count_iff all sub Hna Hns Hi), (momentum_spanning_iff ext sub Hns). tauto.
Qed.

(* ---------- monotonicity: a subset of a non-spanning set is not spanning ---------- *)
Lemma touches_all_mono (ext : list N) (S S' : list ie) : incl S S' -> touches_all ext S -> touches_all ext S'.
Proof.
  intros Hi [e0 [He0 Hall]]. exists e0. split; [apply Hi, He0|].
  intros v Hv. destruct (Hall v Hv) as [e [He [Hc Hcv]]].
  exists e. split; [apply Hi, He|]. split; [apply (conn_incl S S' e0 e Hi Hc)|exact Hcv].
Qed.

Lemma sub_edges_incl (edges : list (edge C)) (s s' : sid) :
  (forall e, has_edge s e = true -> has_edge s' e = true) -> incl (sub_edges edges s) (sub_edges edges s').
Proof.
  intros H p Hp. unfold sub_edges in *. apply filter_In in Hp. apply filter_In.
  split; [tauto|apply H; tauto].
Qed.

Theorem spanning_monotone (edges : list (edge C)) (ext : list N) (s s' : sid) :
  (forall e, has_edge s e = true -> has_edge s' e = true) ->
  let nm := length (filter (fun e => e_massive e) edges) in
  is_mass_momentum_spanning nm ext (sub_edges edges s) = true ->
  is_mass_momentum_spanning nm ext (sub_edges edges s') = true.
Proof.
  intros Hsub nm H. apply spanning_semantics in H. apply spanning_semantics.
  destruct H as [Hm Ht]. pose proof (sub_edges_incl edges s s' Hsub) as Hi. split.
  - intros p Hp Hmass. apply Hi. apply Hm; assumption.
  - apply (touches_all_mono ext _ _ Hi Ht).
Qed.

End Span.
