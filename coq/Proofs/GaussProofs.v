(* Proofs/GaussProofs.v -- sample_q_vectors (C13): which coordinates feed which Gaussian
   component, how many are read; and over R the radius identity of Box-Muller. *)
From Coq Require Import ZArith List Bool Lia Arith Reals Lra.
From MT Require Import Model.Scalar Model.Graph Model.Table Model.Matrix Model.Sampling Proofs.Instances.
Import ListNotations.
Local Open Scope nat_scope.

Section Gauss.
Context {C T : Type} (S : Scalar C T).

(* the list the iterator of Box-Muller pairs yields, as a function of the coordinates *)
Fixpoint bm_list (pt : list T) (off pairs : nat) (d : T) : list T :=
  match pairs with
  | O => []
  | Datatypes.S k =>
      let bm := box_muller S (nth off pt d) (nth (off + 1) pt d) in
      fst bm :: snd bm :: bm_list pt (off + 2) k d
  end.

Lemma rng_next_ok (pt : list T) k d : k < length pt ->
  rng_next (mkRng pt k) = Ok (nth k pt d, mkRng pt (Datatypes.S k)).
Proof.
  intros H. unfold rng_next. cbn [r_cache r_counter].
  rewrite (nth_error_nth' pt d H). reflexivity.
Qed.

Lemma rng_next_panic (pt : list T) k : length pt <= k -> rng_next (mkRng pt k) = Panic 10.
Proof.
  intros H. unfold rng_next. cbn [r_cache r_counter].
  apply nth_error_None in H. rewrite H. reflexivity.
Qed.

Lemma gaussians_ok pt off pairs d : off + 2 * pairs <= length pt ->
  gaussians S pairs (mkRng pt off) = Ok (bm_list pt off pairs d, mkRng pt (off + 2 * pairs)).
Proof.
  revert off; induction pairs as [|k IH]; intros off H.
  - cbn. rewrite Nat.add_0_r. reflexivity.
  - cbn [gaussians bm_list].
    rewrite (rng_next_ok pt off d) by lia. cbn [rbind fst snd].
    rewrite (rng_next_ok pt (Datatypes.S off) d) by lia. cbn [rbind fst snd].
    replace (Datatypes.S (Datatypes.S off)) with (off + 2) by lia.
    rewrite IH by lia. cbn [rbind fst snd].
    replace (off + 1) with (Datatypes.S off) by lia.
    replace (off + 2 + 2 * k) with (off + 2 * Datatypes.S k) by lia. reflexivity.
Qed.

Lemma gaussians_short pt off pairs : length pt < off + 2 * pairs -> off <= length pt ->
  exists w, gaussians S pairs (mkRng pt off) = Panic w.
Proof.
  revert off; induction pairs as [|k IH]; intros off H Hle; [lia|].
  cbn [gaussians].
  destruct (Nat.lt_ge_cases off (length pt)) as [H1|H1].
  - destruct pt as [|d0 pt']; [cbn in H1; lia|].
    rewrite (rng_next_ok (d0 :: pt') off d0) by exact H1. cbn [rbind fst snd].
    destruct (Nat.lt_ge_cases (Datatypes.S off) (length (d0 :: pt'))) as [H2|H2].
    + rewrite (rng_next_ok (d0 :: pt') (Datatypes.S off) d0) by exact H2. cbn [rbind fst snd].
      destruct (IH (Datatypes.S (Datatypes.S off))) as [w Hw]; [lia|lia|].
      rewrite Hw. exists w. reflexivity.
    + rewrite rng_next_panic by exact H2. exists 10. reflexivity.
  - rewrite rng_next_panic by exact H1. exists 10. reflexivity.
Qed.

Lemma bm_list_length pt off pairs d : length (bm_list pt off pairs d) = 2 * pairs.
Proof. revert off; induction pairs as [|k IH]; intros off; cbn; [reflexivity|rewrite IH; lia]. Qed.

(* component n of the stream: cos-branch for even n, sin-branch for odd n, of pair n/2 *)
Lemma bm_list_nth pt off pairs d n : n < 2 * pairs ->
  nth n (bm_list pt off pairs d) d =
  let bm := box_muller S (nth (off + 2 * (n / 2)) pt d) (nth (off + 2 * (n / 2) + 1) pt d) in
  if Nat.even n then fst bm else snd bm.
Proof.
  revert off n; induction pairs as [|k IH]; intros off n H; [lia|].
  cbn [bm_list]. destruct n as [|[|n]].
  - cbn. rewrite Nat.add_0_r. reflexivity.
  - cbn. rewrite Nat.add_0_r. reflexivity.
  - cbn [nth]. rewrite IH by lia. cbv zeta.
    assert (Hd : Datatypes.S (Datatypes.S n) / 2 = n / 2 + 1)
      by (replace (Datatypes.S (Datatypes.S n)) with (n + 1 * 2) by lia; apply Nat.div_add; lia).
    rewrite Hd. cbn [Nat.even].
    replace (off + 2 + 2 * (n / 2)) with (off + 2 * (n / 2 + 1)) by lia. reflexivity.
Qed.

Lemma chunks_nth D L (l : list T) (d : T) lv i : lv < L -> i < D ->
  nth i (nth lv (chunks D L l) []) d = nth (lv * D + i) l d.
Proof.
  revert l lv; induction L as [|k IH]; intros l lv HL Hi; [lia|].
  cbn [chunks]. destruct lv as [|lv].
  - cbn [nth]. cbn. 
    destruct (Nat.lt_ge_cases i (length (firstn D l))) as [H|H].
    + rewrite <- (firstn_skipn D l) at 2. rewrite app_nth1 by exact H. reflexivity.
    + rewrite nth_overflow by exact H. rewrite firstn_length in H.
      rewrite nth_overflow by lia. reflexivity.
  - cbn [nth]. rewrite IH by lia.
    replace (Datatypes.S lv * D + i) with (D + (lv * D + i)) by lia.
    clear. revert l. generalize (lv * D + i) as m. induction D as [|D' IHD]; intros m l; [reflexivity|].
    destruct l as [|x l']; [destruct m; reflexivity|]. cbn. apply IHD.
Qed.

Lemma chunks_length D L (l : list T) : length (chunks D L l) = L.
Proof. revert l; induction L as [|k IH]; intros l; cbn; [reflexivity|rewrite IH; reflexivity]. Qed.

(* C13: the layout of sample_q_vectors *)
Theorem q_vectors_layout (pt : list T) (off D L : nat) (d : T) :
  let nv := D * L in
  let reads := nv + Nat.modulo nv 2 in
  off + reads <= length pt ->
  exists qs,
    sample_q_vectors S (mkRng pt off) D L = Ok (qs, mkRng pt (off + reads)) /\
    length qs = L /\
    forall lv i, lv < L -> i < D ->
      let n := lv * D + i in
      let a := nth (off + 2 * (n / 2)) pt d in
      let b := nth (off + 2 * (n / 2) + 1) pt d in
      nth i (nth lv qs []) d = if Nat.even n then fst (box_muller S a b) else snd (box_muller S a b).
Proof.
  cbv zeta. intros H. unfold sample_q_vectors.
  set (nv := D * L) in *.
  assert (Hp : 2 * ((nv + nv mod 2) / 2) = nv + nv mod 2).
  { symmetry. apply Nat.div_exact; [lia|].
    rewrite Nat.add_mod by lia. rewrite Nat.mod_mod by lia.
    pose proof (Nat.mod_upper_bound nv 2 ltac:(lia)) as Hm.
    destruct (nv mod 2) as [|[|k]]; [reflexivity|reflexivity|lia]. }
  rewrite (gaussians_ok pt off _ d) by lia. cbn [rbind fst snd].
  rewrite Hp. eexists. split; [reflexivity|]. split; [apply chunks_length|].
  intros lv i Hl Hi. rewrite chunks_nth by assumption.
  apply bm_list_nth. rewrite Hp. unfold nv. nia.
Qed.

End Gauss.

(* ---------- over the reals ---------- *)
Open Scope R_scope.

Lemma box_muller_radius (a b : R) : 0 < a < 1 ->
  let z := box_muller RS a b in
  fst z * fst z + snd z * snd z = -2 * ln a.
Proof.
  intros [Ha0 Ha1]. cbn [box_muller RS s_sqrt s_mul s_neg s_of_Z s_ln s_cos s_sin s_pi fst snd].
  assert (Hln : ln a < 0) by (rewrite <- ln_1; apply ln_increasing; lra).
  set (r := sqrt (- IZR 2 * ln a)). set (th := IZR 2 * PI * b).
  assert (Hr : r * r = -2 * ln a).
  { unfold r. rewrite sqrt_sqrt; [reflexivity|]. lra. }
  replace (cos th * r * (cos th * r) + sin th * r * (sin th * r))
    with ((Rsqr (sin th) + Rsqr (cos th)) * (r * r)) by (unfold Rsqr; ring).
  rewrite sin2_cos2, Hr. ring.
Qed.
