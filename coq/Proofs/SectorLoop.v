(* Proofs/SectorLoop.v -- the removal loop of permatuhedral_sampling: what one iteration
   does, how many coordinates are read (C14), the sector formula as a recurrence (C07). *)
From Coq Require Import ZArith NArith List Bool Lia Arith.
From MT Require Import Model.Scalar Model.Graph Model.Table Model.Matrix Model.Sampling
  Proofs.TableProofs Proofs.TableField Proofs.Orderings Proofs.SectorProofs Proofs.GaussProofs.
Import ListNotations.
Local Open Scope nat_scope.

Lemma edges_of_empty_iff E g : (g < 2 ^ N.of_nat E)%N -> (edges_of E g = [] <-> g = 0%N).
Proof.
  intros Hlt. split.
  - intros He. destruct (N.eq_dec g 0) as [|Hne]; [assumption|].
    exfalso. apply (edges_of_nonempty E g); [lia|exact Hlt|exact He].
  - intros ->. apply edges_of_zero.
Qed.

Definition card (E : nat) (g : sid) : nat := length (edges_of E g).

Lemma card_pop E g e : In e (edges_of E g) -> card E (pop_edge g e) = card E g - 1.
Proof.
  intros Hin. unfold card. pose proof Hin as Hin'. apply edges_of_has in Hin'. destruct Hin' as [He _].
  rewrite (edges_of_pop E g e He). apply remove_length_nodup; [apply edges_of_NoDup|exact Hin].
Qed.

Section Loop.
Context {C T : Type} (SC : Scalar C C) (S : Scalar C T).
Variable t : table C.
Notation E := (nedges t).
Variable d : T.      (* default element for [nth] on the point *)

(* the kappa recurrence *)
Definition next_kappa (pt : list T) (c : nat) (g' : sid) (kappa : T) : T :=
  s_mul S kappa (s_powf S (nth (c + 1) pt d) (s_inv S (s_of_c S (t_dod (ent SC t g'))))).

Definition tropical_update (st : sector_state (T:=T)) (g g' : sid) (xe : T) : T * T :=
  (if Nat.ltb (t_loop (ent SC t g')) (t_loop (ent SC t g)) then s_mul S (st_utrop st) xe else st_utrop st,
   if t_span (ent SC t g) && negb (t_span (ent SC t g')) then xe else st_vtrop st).

(* one iteration on a subgraph with at least two edges: two reads *)
Lemma remove_one_many st st' pt c :
  st_rng st = mkRng pt c -> (st_g st < 2 ^ N.of_nat E)%N -> 2 <= card E (st_g st) ->
  remove_one SC S t st = Ok st' ->
  c + 1 < length pt /\
  exists e, In e (edges_of E (st_g st)) /\
    sample_edge SC S t (nth c pt d) (st_g st) = Ok (e, pop_edge (st_g st) e) /\
    let g' := pop_edge (st_g st) e in
    let x := upd (st_x st) e (st_kappa st) in
    st' = mkSt g' (next_kappa pt c g' (st_kappa st)) x
               (fst (tropical_update st (st_g st) g' (nth e x (s_zero S))))
               (snd (tropical_update st (st_g st) g' (nth e x (s_zero S))))
               (mkRng pt (c + 2)) (e :: st_order st).
Proof.
  intros Hr Hlt Hcard Hrem. unfold remove_one in Hrem.
  assert (H1 : has_one_edge E (st_g st) = false).
  { unfold has_one_edge. apply Nat.eqb_neq. unfold card in Hcard. lia. }
  rewrite H1, Hr in Hrem.
  destruct (Nat.lt_ge_cases c (length pt)) as [Hc|Hc]; [|rewrite rng_next_panic in Hrem by exact Hc; discriminate].
  rewrite (rng_next_ok pt c d Hc) in Hrem. cbn [rbind fst snd] in Hrem.
  destruct (sample_edge SC S t (nth c pt d) (st_g st)) as [[e g']|w] eqn:Hs; [|discriminate].
  cbn [rbind fst snd] in Hrem.
  destruct (sample_edge_in SC S t _ _ e g' Hs) as [Hin ->].
  assert (Hne : is_empty (pop_edge (st_g st) e) = false).
  { unfold is_empty. apply N.eqb_neq. intros H0.
    pose proof (card_pop E (st_g st) e Hin) as Hcp. rewrite H0 in Hcp.
    unfold card in Hcp at 1. rewrite edges_of_zero in Hcp. cbn in Hcp. lia. }
  rewrite Hne in Hrem.
  destruct (Nat.lt_ge_cases (Datatypes.S c) (length pt)) as [Hc1|Hc1];
    [|rewrite rng_next_panic in Hrem by exact Hc1; discriminate].
  rewrite (rng_next_ok pt (Datatypes.S c) d Hc1) in Hrem. cbn [rbind fst snd] in Hrem.
  split; [lia|]. exists e. split; [exact Hin|]. split; [reflexivity|]. cbv zeta.
  inversion Hrem. unfold next_kappa, tropical_update. cbn [fst snd].
  replace (c + 1) with (Datatypes.S c) by lia. replace (c + 2) with (Datatypes.S (Datatypes.S c)) by lia.
  reflexivity.
Qed.

(* the last iteration: no read *)
Lemma remove_one_last st st' :
  (st_g st < 2 ^ N.of_nat E)%N -> card E (st_g st) = 1 ->
  remove_one SC S t st = Ok st' ->
  exists e, edges_of E (st_g st) = [e] /\ pop_edge (st_g st) e = 0%N /\
    let x := upd (st_x st) e (st_kappa st) in
    st' = mkSt 0%N (st_kappa st) x
               (fst (tropical_update st (st_g st) 0%N (nth e x (s_zero S))))
               (snd (tropical_update st (st_g st) 0%N (nth e x (s_zero S))))
               (st_rng st) (e :: st_order st).
Proof.
  intros Hlt Hcard Hrem. unfold remove_one in Hrem.
  assert (H1 : has_one_edge E (st_g st) = true) by (unfold has_one_edge; apply Nat.eqb_eq; exact Hcard).
  rewrite H1 in Hrem. unfold card in Hcard.
  destruct (edges_of E (st_g st)) as [|e [|e2 l]] eqn:He; try discriminate.
  cbn [rbind] in Hrem. exists e. split; [reflexivity|].
  assert (Hin : In e (edges_of E (st_g st))) by (rewrite He; left; reflexivity).
  assert (H0 : pop_edge (st_g st) e = 0%N).
  { pose proof (card_pop E (st_g st) e Hin) as Hcp. unfold card in Hcp. rewrite He in Hcp. cbn in Hcp.
    apply length_zero_iff_nil in Hcp. apply (edges_of_empty_iff E); [|exact Hcp].
    apply edges_of_has in Hin. destruct Hin as [Hh _]. pose proof (pop_edge_lt _ _ Hh). lia. }
  split; [exact H0|].
  rewrite H0 in Hrem. cbn [is_empty N.eqb] in Hrem. inversion Hrem. reflexivity.
Qed.

(* ---------- the whole loop, described by a specification function ---------- *)
(* what the loop computes along a given removal order (edge list), reading xi at c+1, c+3, ... *)
Fixpoint spec_run (pt : list T) (c : nat) (st : sector_state (T:=T)) (order : list nat) : sector_state :=
  match order with
  | [] => st
  | e :: rest =>
      let g := st_g st in
      let g' := pop_edge g e in
      let x := upd (st_x st) e (st_kappa st) in
      let tu := tropical_update st g g' (nth e x (s_zero S)) in
      match rest with
      | [] => mkSt g' (st_kappa st) x (fst tu) (snd tu) (mkRng pt c) (e :: st_order st)
      | _ => spec_run pt (c + 2) (mkSt g' (next_kappa pt c g' (st_kappa st)) x (fst tu) (snd tu)
                                        (mkRng pt (c + 2)) (e :: st_order st)) rest
      end
  end.

Lemma sector_loop_spec fuel st st' pt c k :
  st_rng st = mkRng pt c -> (st_g st < 2 ^ N.of_nat E)%N -> card E (st_g st) = Datatypes.S k -> k < fuel ->
  sector_loop SC S fuel t st = Ok st' ->
  (0 < k -> c + 2 * k <= length pt) /\
  exists order, length order = Datatypes.S k /\ NoDup order /\
    (forall e, In e order <-> In e (edges_of E (st_g st))) /\
    st' = spec_run pt c st order /\ st_g st' = 0%N /\
    st_rng st' = mkRng pt (c + 2 * k) /\ st_order st' = rev order ++ st_order st.
Proof.
  revert st pt c k; induction fuel as [|fuel IH]; intros st pt c k Hr Hlt Hcard Hk Hloop; [lia|].
  cbn [sector_loop] in Hloop.
  assert (Hne : is_empty (st_g st) = false).
  { unfold is_empty. apply N.eqb_neq. intros H0. rewrite H0 in Hcard. unfold card in Hcard.
    rewrite edges_of_zero in Hcard. discriminate. }
  rewrite Hne in Hloop.
  destruct (remove_one SC S t st) as [st1|w] eqn:Hrem; [|discriminate]. cbn [rbind] in Hloop.
  destruct k as [|k].
  - (* last edge *)
    destruct (remove_one_last st st1 Hlt Hcard Hrem) as [e [He [Hp0 Hst1]]]. cbv zeta in Hst1.
    assert (Hg1 : st_g st1 = 0%N) by (rewrite Hst1; reflexivity).
    destruct fuel as [|fuel']; cbn [sector_loop] in Hloop; rewrite Hg1 in Hloop; cbn [is_empty N.eqb] in Hloop;
      inversion Hloop; subst st'.
    all: split; [intros; lia|]; exists [e]; split; [reflexivity|]; split; [repeat constructor; intros []|];
      split; [intros e'; rewrite He; reflexivity|].
    all: split; [cbn [spec_run]; rewrite Hp0, Hst1, Hr; reflexivity|].
    all: rewrite Hst1; cbn; rewrite Hr; replace (c + 0) with c by lia; repeat split; reflexivity.
  - (* at least two edges *)
    destruct (remove_one_many st st1 pt c Hr Hlt ltac:(lia) Hrem) as [Hlen [e [Hin [_ Hst1]]]]. cbv zeta in Hst1.
    pose proof Hin as Hin'. apply edges_of_has in Hin'. destruct Hin' as [Hhas _].
    pose proof (pop_edge_lt _ _ Hhas) as Hpl.
    assert (Hc1 : card E (st_g st1) = Datatypes.S k).
    { rewrite Hst1. cbn [st_g]. rewrite card_pop by exact Hin. lia. }
    destruct (IH st1 pt (c + 2) k) as [Hlen2 [order [Hlo [Hnd [Hiff [Hsp [Hg0 [Hrng Hord]]]]]]]].
    + rewrite Hst1. reflexivity.
    + rewrite Hst1. cbn [st_g]. lia.
    + exact Hc1.
    + lia.
    + exact Hloop.
    + split; [intros _; destruct k; [lia|specialize (Hlen2 ltac:(lia)); lia]|]. exists (e :: order).
      assert (Hnotin : ~ In e order).
      { intros Hc. apply Hiff in Hc. rewrite Hst1 in Hc. cbn [st_g] in Hc.
        rewrite (edges_of_pop E _ _ Hhas) in Hc. apply in_remove in Hc. destruct Hc as [_ Hc]. congruence. }
      split; [cbn; lia|]. split; [constructor; assumption|]. split.
      * intros e'. cbn [In]. rewrite Hiff, Hst1. cbn [st_g]. rewrite (edges_of_pop E _ _ Hhas). split.
        -- intros [<-|Hc]; [exact Hin|apply in_remove in Hc; tauto].
        -- intros Hc. destruct (Nat.eq_dec e e') as [->|Hne']; [left; reflexivity|right].
           apply in_in_remove; [congruence|exact Hc].
      * split.
        -- cbn [spec_run]. destruct order as [|e2 order']; [cbn in Hlo; lia|].
           rewrite Hsp, Hst1. reflexivity.
        -- split; [exact Hg0|]. split.
           ++ rewrite Hrng. f_equal. lia.
           ++ rewrite Hord, Hst1. cbn [st_order rev]. rewrite <- app_assoc. reflexivity.
Qed.

End Loop.

(* ---------- permatuhedral_sampling as a whole ---------- *)
Section Whole.
Context {C T : Type} (SC : Scalar C C) (S : Scalar C T).
Variable t : table C.
Notation E := (nedges t).
Variable d : T.

Lemma ones_lt E0 : (N.ones (N.of_nat E0) < 2 ^ N.of_nat E0)%N.
Proof. rewrite N.ones_equiv. apply N.lt_pred_l, N.pow_nonzero. discriminate. Qed.

Lemma card_full E0 : card E0 (N.ones (N.of_nat E0)) = E0.
Proof. unfold card. rewrite Orderings.edges_of_full, seq_length. reflexivity. Qed.

Definition init_state (pt : list T) : sector_state (T:=T) :=
  mkSt (N.ones (N.of_nat E)) (s_one S) (repeat (s_zero S) E) (s_one S) (s_one S) (mkRng pt 0) [].

(* the removal order is a permutation of all edges, 2E-2 coordinates are read, and the state
   after the loop is [spec_run] along that order *)
Theorem sampling_anatomy pt sec :
  permatuhedral_sampling SC S t (mkRng pt 0) = Ok sec ->
  1 <= E ->
  E < 64 /\ (2 <= E -> 2 * E - 2 <= length pt) /\
  NoDup (sec_order sec) /\ length (sec_order sec) = E /\ (forall e, In e (sec_order sec) <-> e < E) /\
  sec_rng sec = mkRng pt (2 * E - 2) /\
  let fin := spec_run SC S t d pt 0 (init_state pt) (sec_order sec) in
  sec_x_pre sec = st_x fin /\ sec_utrop_pre sec = st_utrop fin /\ sec_vtrop_pre sec = st_vtrop fin /\
  sec_x sec = map (fun x => s_mul S x (sec_scaling sec)) (sec_x_pre sec).
Proof.
  intros Hs HE. unfold permatuhedral_sampling in Hs. unfold full_id in Hs.
  destruct (Nat.ltb_spec E 64) as [H64|H64]; [|discriminate]. cbn [rbind] in Hs.
  fold (init_state pt) in Hs.
  destruct (sector_loop SC S (Datatypes.S E) t (init_state pt)) as [st'|w] eqn:Hloop; [|discriminate]. cbn [rbind] in Hs.
  destruct (sector_loop_spec SC S t d (Datatypes.S E) (init_state pt) st' pt 0 (E - 1) eq_refl (ones_lt E)
              ltac:(cbn [st_g]; rewrite card_full; lia) ltac:(lia) Hloop)
    as [Hlen [order [Hlo [Hnd [Hiff [Hsp [Hg0 [Hrng Hord]]]]]]]].
  cbn [st_g st_order] in *. rewrite app_nil_r in Hord.
  inversion Hs; subst sec; cbn [sec_order sec_rng sec_x_pre sec_utrop_pre sec_vtrop_pre sec_x sec_scaling].
  rewrite Hord, rev_involutive.
  split; [exact H64|]. split; [intros H2; specialize (Hlen ltac:(lia)); lia|].
  split; [exact Hnd|]. split; [lia|]. split.
  - intros e. rewrite Hiff, Orderings.edges_of_full, in_seq. lia.
  - split; [rewrite Hrng; f_equal; lia|]. cbv zeta. rewrite <- Hsp.
    repeat split; reflexivity.
Qed.

End Whole.

(* ---------- the loop ignores coordinates it does not read (C14) ---------- *)
Section Agree.
Context {C T : Type} (SC : Scalar C C) (S : Scalar C T).
Variable t : table C.
Notation E := (nedges t).
Variable d : T.

Definition recache (pt : list T) (st : sector_state (T:=T)) : sector_state :=
  mkSt (st_g st) (st_kappa st) (st_x st) (st_utrop st) (st_vtrop st)
       (mkRng pt (r_counter (st_rng st))) (st_order st).

Lemma sector_loop_agree fuel st st1 st2 pt1 pt2 c k :
  st_rng st = mkRng pt1 c -> (st_g st < 2 ^ N.of_nat E)%N -> card E (st_g st) = Datatypes.S k -> k < fuel ->
  (forall i, i < c + 2 * k -> nth i pt1 d = nth i pt2 d) ->
  sector_loop SC S fuel t st = Ok st1 ->
  sector_loop SC S fuel t (recache pt2 st) = Ok st2 ->
  st2 = recache pt2 st1.
Proof.
  revert st pt1 pt2 c k; induction fuel as [|fuel IH]; intros st pt1 pt2 c k Hr Hlt Hcard Hk Hag H1 H2; [lia|].
  cbn [sector_loop] in H1, H2. cbn [recache st_g] in H2.
  assert (Hne : is_empty (st_g st) = false).
  { unfold is_empty. apply N.eqb_neq. intros H0. rewrite H0 in Hcard. unfold card in Hcard.
    rewrite edges_of_zero in Hcard. discriminate. }
  rewrite Hne in H1, H2.
  destruct (remove_one SC S t st) as [sa|w] eqn:Ha; [|discriminate]. cbn [rbind] in H1.
  destruct (remove_one SC S t (recache pt2 st)) as [sb|w] eqn:Hb; [|discriminate]. cbn [rbind] in H2.
  assert (Hrb : st_rng (recache pt2 st) = mkRng pt2 c) by (unfold recache; cbn; rewrite Hr; reflexivity).
  destruct k as [|k].
  - destruct (remove_one_last SC S t st sa Hlt Hcard Ha) as [e [He [Hp0 Hsa]]].
    destruct (remove_one_last SC S t (recache pt2 st) sb Hlt Hcard Hb) as [e' [He' [_ Hsb]]].
    cbn [recache st_g] in He'. rewrite He in He'. inversion He'; subst e'.
    cbv zeta in Hsa, Hsb.
    assert (Hsab : sb = recache pt2 sa).
    { rewrite Hsb, Hsa. unfold recache, tropical_update. cbn. rewrite Hr. reflexivity. }
    assert (Hga : st_g sa = 0%N) by (rewrite Hsa; reflexivity).
    destruct fuel as [|fuel']; cbn [sector_loop] in H1, H2;
      rewrite Hsab in H2; cbn [recache st_g] in H2; rewrite Hga in H1, H2; cbn [is_empty N.eqb] in H1, H2;
      inversion H1; inversion H2; subst; reflexivity.
  - destruct (remove_one_many SC S t d st sa pt1 c Hr Hlt ltac:(lia) Ha) as [_ [e [Hin [Hse Hsa]]]].
    destruct (remove_one_many SC S t d (recache pt2 st) sb pt2 c Hrb Hlt ltac:(cbn [recache st_g]; lia) Hb)
      as [_ [e' [_ [Hse' Hsb]]]].
    cbn [recache st_g] in Hse'. rewrite <- (Hag c ltac:(lia)) in Hse'. rewrite Hse in Hse'.
    inversion Hse' as [[Hee Hpp]]. subst e'. cbv zeta in Hsa, Hsb.
    assert (Hsab : sb = recache pt2 sa).
    { rewrite Hsb, Hsa. unfold recache, tropical_update, next_kappa. cbn.
      rewrite (Hag (c + 1) ltac:(lia)). reflexivity. }
    pose proof Hin as Hin'. apply edges_of_has in Hin'. destruct Hin' as [Hhas _].
    pose proof (pop_edge_lt _ _ Hhas) as Hpl.
    rewrite Hsab in H2.
    apply (IH sa pt1 pt2 (c + 2) k); try assumption.
    + rewrite Hsa. reflexivity.
    + rewrite Hsa. cbn [st_g]. lia.
    + rewrite Hsa. cbn [st_g]. rewrite card_pop by exact Hin. lia.
    + lia.
    + intros i Hi. apply Hag. lia.
Qed.

(* points that agree on the first 2E-2 coordinates give the same removal order, Feynman
   parameters (before and after rescaling), tropical values and read count *)
Theorem sampling_ignores_tail pt1 pt2 sec1 sec2 :
  1 <= E ->
  (forall i, i < 2 * E - 2 -> nth i pt1 d = nth i pt2 d) ->
  permatuhedral_sampling SC S t (mkRng pt1 0) = Ok sec1 ->
  permatuhedral_sampling SC S t (mkRng pt2 0) = Ok sec2 ->
  sec_order sec2 = sec_order sec1 /\ sec_x_pre sec2 = sec_x_pre sec1 /\ sec_x sec2 = sec_x sec1 /\
  sec_utrop_pre sec2 = sec_utrop_pre sec1 /\ sec_vtrop_pre sec2 = sec_vtrop_pre sec1 /\
  sec_scaling sec2 = sec_scaling sec1 /\ r_counter (sec_rng sec2) = r_counter (sec_rng sec1).
Proof.
  intros HE Hag H1 H2. unfold permatuhedral_sampling, full_id in H1, H2.
  destruct (Nat.ltb_spec E 64) as [H64|H64]; [|discriminate]. cbn [rbind] in H1, H2.
  fold (init_state S t pt1) in H1. fold (init_state S t pt2) in H2.
  destruct (sector_loop SC S (Datatypes.S E) t (init_state S t pt1)) as [s1|w] eqn:Hl1; [|discriminate].
  destruct (sector_loop SC S (Datatypes.S E) t (init_state S t pt2)) as [s2|w] eqn:Hl2; [|discriminate].
  cbn [rbind] in H1, H2.
  assert (Hs2 : s2 = recache pt2 s1).
  { apply (sector_loop_agree (Datatypes.S E) (init_state S t pt1) s1 s2 pt1 pt2 0 (E - 1)); try assumption.
    - reflexivity.
    - apply ones_lt.
    - cbn [init_state st_g]. rewrite card_full. lia.
    - lia.
    - intros i Hi. apply Hag. lia. }
  inversion H1; inversion H2; subst sec1 sec2 s2. cbn. repeat split; reflexivity.
Qed.

End Agree.

(* ---------- the sector formula as a recurrence (C07) ---------- *)
Section Kappa.
Context {C T : Type} (SC : Scalar C C) (S : Scalar C T).
Variable t : table C.
Variable d : T.

Lemma upd_length (l : list T) e v : length (upd l e v) = length l.
Proof. revert e; induction l as [|x l IH]; intros [|e]; cbn; auto. Qed.

Lemma nth_upd_same (l : list T) e v z : e < length l -> nth e (upd l e v) z = v.
Proof.
  revert e; induction l as [|x l IH]; intros e H; [cbn in H; lia|].
  destruct e as [|e]; [reflexivity|]. cbn [upd nth]. apply IH. cbn in H. lia.
Qed.

Lemma nth_upd_other (l : list T) e e' v z : e' <> e -> nth e' (upd l e v) z = nth e' l z.
Proof.
  revert e e'; induction l as [|x l IH]; intros e e' H; [destruct e; reflexivity|].
  destruct e as [|e], e' as [|e']; cbn [upd nth]; try reflexivity; try congruence.
  apply IH. congruence.
Qed.

(* kappa_1 = 1, kappa_{k+1} = kappa_k * powf xi_k (1/omega(g_k)):  xi_k is the coordinate read
   after the k-th removal (position c + 2k - 1), g_k the graph left after k removals *)
Fixpoint kappa_seq (pt : list T) (c : nat) (g : sid) (kappa : T) (order : list nat) : list T :=
  match order with
  | [] => []
  | e :: rest => kappa :: kappa_seq pt (c + 2) (pop_edge g e) (next_kappa SC S t d pt c (pop_edge g e) kappa) rest
  end.

Lemma spec_run_x pt c st order z :
  NoDup order -> (forall e, In e order -> e < length (st_x st)) ->
  let fin := spec_run SC S t d pt c st order in
  length (st_x fin) = length (st_x st) /\
  (forall k, k < length order ->
     nth (nth k order 0) (st_x fin) z = nth k (kappa_seq pt c (st_g st) (st_kappa st) order) z) /\
  (forall e, ~ In e order -> nth e (st_x fin) z = nth e (st_x st) z).
Proof.
  revert c st; induction order as [|e rest IH]; intros c st Hnd Hlt; cbv zeta.
  - cbn. split; [reflexivity|]. split; [intros k Hk; lia|reflexivity].
  - inversion Hnd as [|? ? Hnotin Hnd']; subst.
    assert (He : e < length (st_x st)) by (apply Hlt; left; reflexivity).
    cbn [spec_run kappa_seq]. destruct rest as [|e2 rest'].
    + cbn [st_x]. rewrite upd_length. split; [reflexivity|]. split.
      * intros [|k] Hk; [|cbn in Hk; lia]. cbn. apply nth_upd_same, He.
      * intros e' Hn. apply nth_upd_other. intros ->. apply Hn. left. reflexivity.
    + set (st1 := mkSt _ _ _ _ _ _ _).
      destruct (IH (c + 2) st1 Hnd') as [Hl [Hk Ho]].
      { intros e' He'. unfold st1. cbn [st_x]. rewrite upd_length. apply Hlt. right. exact He'. }
      cbv zeta in Hl, Hk, Ho. split; [rewrite Hl; unfold st1; cbn [st_x]; apply upd_length|]. split.
      * intros [|k] Hklt.
        -- cbn [nth]. rewrite (Ho e Hnotin). unfold st1. cbn [st_x]. apply nth_upd_same, He.
        -- cbn [nth length] in *. rewrite (Hk k ltac:(lia)). unfold st1. cbn [st_g st_kappa]. reflexivity.
      * intros e' Hn. rewrite (Ho e') by (intros Hc; apply Hn; right; exact Hc).
        unfold st1. cbn [st_x]. apply nth_upd_other. intros ->. apply Hn. left. reflexivity.
Qed.

End Kappa.
