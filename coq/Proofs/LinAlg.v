(* Proofs/LinAlg.v -- the bridge from the list-based executable model to MathComp matrices,
   over an arbitrary real closed field F (ssreflect style).  The model functions are
   instantiated at the dictionary [FS F]; folds become big sums, row-major lists become 'M[F]_n. *)
From Coq Require Import ZArith List.
From mathcomp Require Import all_ssreflect all_algebra.
From MT Require Import Model.Scalar Model.Vector Model.Matrix Proofs.MatrixFloat Proofs.LMatrix Proofs.CholSpec.
Set Implicit Arguments.
Unset Strict Implicit.
Unset Printing Implicit Defensive.
Import Order.TTheory GRing.Theory Num.Theory.
Local Open Scope ring_scope.

Section Bridge.
Variable F : rcfType.

Definition Z2int (z : Z) : int :=
  match z with
  | Z0 => 0
  | Zpos p => Posz (Pos.to_nat p)
  | Zneg p => Negz (Pos.to_nat p).-1
  end.

(* the dictionary of F; transcendental slots are placeholders (no theorem here mentions them) *)
Definition FS : Scalar F F :=
  mkScalar F F +%R (fun x y => x - y) *%R (fun x y => x / y) -%R (fun x => x^-1) Num.norm Num.sqrt
           id id id id (fun x _ => x) 0 1 1 (fun z => (Z2int z)%:~R) id id
           (fun x y => x == y) (fun x y => x < y) (fun x y => x <= y).

(* ---------- folds are big sums ---------- *)
Lemma seq_iota m n : List.seq m n = iota m n.
Proof. by elim: n m => [|n IH] m //=; rewrite IH. Qed.

Lemma foldl_add (f : nat -> F) (l : list nat) a :
  List.fold_left (fun acc k => acc + f k) l a = a + \sum_(k <- l) f k.
Proof.
  elim: l a => [|k l IH] a /=; first by rewrite big_nil addr0.
  by rewrite IH big_cons addrA.
Qed.

Lemma foldl_sub (f : nat -> F) (l : list nat) a :
  List.fold_left (fun acc k => acc - f k) l a = a - \sum_(k <- l) f k.
Proof.
  elim: l a => [|k l IH] a /=; first by rewrite big_nil subr0.
  by rewrite IH big_cons opprD addrA.
Qed.

Lemma sum_seq0 (f : nat -> F) n : \sum_(k <- List.seq 0 n) f k = \sum_(k < n) f k.
Proof. by rewrite seq_iota -[RHS](big_mkord xpredT) /index_iota subn0. Qed.

(* ---------- matrices ---------- *)
Definition mx_of n (m : list F) : 'M[F]_n := \matrix_(i, j) mget FS n m i j.

Lemma mget_tabF n (f : nat -> nat -> F) (i j : 'I_n) : mget FS n (tabulate n f) i j = f i j.
Proof. by apply: mget_tab; apply/ssrnat.ltP. Qed.

Lemma mx_of_tabulate n (f : nat -> nat -> F) : mx_of n (tabulate n f) = \matrix_(i, j) f i j.
Proof. by apply/matrixP => i j; rewrite !mxE mget_tabF. Qed.

Lemma mx_of_mmul n a b : mx_of n (mmul FS n a b) = mx_of n a *m mx_of n b.
Proof.
  apply/matrixP => i j; rewrite !mxE mget_tabF /= foldl_add add0r sum_seq0.
  by apply: eq_bigr => k _; rewrite !mxE.
Qed.

Lemma mx_of_madd n a b : mx_of n (madd FS n a b) = mx_of n a + mx_of n b.
Proof. by apply/matrixP => i j; rewrite !mxE mget_tabF. Qed.

Lemma mx_of_msub n a b : mx_of n (msub FS n a b) = mx_of n a - mx_of n b.
Proof. by apply/matrixP => i j; rewrite !mxE mget_tabF. Qed.

Lemma mx_of_mtranspose n a : mx_of n (mtranspose FS n a) = (mx_of n a)^T.
Proof. by apply/matrixP => i j; rewrite !mxE mget_tabF. Qed.

Lemma nat_eqbE (a b : nat) : Nat.eqb a b = (a == b).
Proof. by apply/idP/idP => [/Nat.eqb_eq -> //|/eqP ->]; apply/Nat.eqb_eq. Qed.

Lemma nat_ltbE (a b : nat) : Nat.ltb a b = (a < b)%N.
Proof. by apply/idP/idP => [/Nat.ltb_lt/ssrnat.ltP|/ssrnat.ltP/Nat.ltb_lt]. Qed.

Lemma mx_of_midentity n : mx_of n (midentity FS n) = 1%:M.
Proof.
  apply/matrixP => i j; rewrite !mxE mget_tabF /= nat_eqbE.
  by rewrite (inj_eq (@ord_inj n)); case: (i == j).
Qed.

(* ---------- Cholesky ---------- *)
Section Cholesky.
Variables (n : nat) (m : list F).
Let M := mx_of n m.
Let q (r c : nat) : F := qe FS n m r c.
Let piv (c : nat) : F := pivot FS n m c.
Definition Qmx : 'M[F]_n := \matrix_(r, c) q r c.

Hypothesis Msym : forall i j : 'I_n, M i j = M j i.
Hypothesis Hpiv : forall c : 'I_n, 0 < piv c.

Lemma mx_of_cholesky : mx_of n (cholesky FS n m) = Qmx.
Proof. by apply/matrixP => i j; rewrite !mxE cholesky_entry //; apply/ssrnat.ltP. Qed.

Lemma pivotE (c : 'I_n) : piv c = M c c - \sum_(k < c) q c k * q c k.
Proof. by rewrite /piv /pivot foldl_sub sum_seq0 mxE. Qed.

Lemma q_upper (r c : 'I_n) : (r < c)%N -> q r c = 0.
Proof.
  move=> Hrc; rewrite /q chol_entry; [|exact/ssrnat.ltP|exact/ssrnat.ltP].
  by rewrite nat_ltbE Hrc.
Qed.

Lemma q_diag (c : 'I_n) : q c c = Num.sqrt (piv c).
Proof.
  rewrite /q chol_entry; [|exact/ssrnat.ltP|exact/ssrnat.ltP].
  by rewrite nat_ltbE ltnn nat_eqbE eqxx.
Qed.

Lemma q_lower (r c : 'I_n) : (c < r)%N ->
  q r c = (M c r - \sum_(k < c) q c k * q r k) / Num.sqrt (piv c).
Proof.
  move=> Hcr; rewrite /q chol_entry; [|exact/ssrnat.ltP|exact/ssrnat.ltP].
  rewrite nat_ltbE ltnNge (ltnW Hcr) /= nat_eqbE (gtn_eqF Hcr).
  by rewrite /= foldl_sub sum_seq0 mxE.
Qed.

Lemma q_diag_pos (c : 'I_n) : 0 < q c c.
Proof. by rewrite q_diag sqrtr_gt0. Qed.

Lemma Q_trig : is_trig_mx Qmx.
Proof. by apply/is_trig_mxP => i j Hij; rewrite mxE q_upper. Qed.

(* sum over all k of q i k * q j k, for j <= i: only k <= j contribute *)
Lemma row_product (i j : 'I_n) : (j <= i)%N ->
  \sum_(k < n) q i k * q j k = \sum_(k < j) q i k * q j k + q i j * q j j.
Proof.
  move=> Hji.
  rewrite -(big_mkord xpredT (fun k => q i k * q j k)).
  rewrite (@big_cat_nat _ _ _ j) //=; last exact: ltnW.
  rewrite big_mkord; congr (_ + _).
  rewrite big_ltn // big_nat_cond big1 ?addr0 // => k /andP [/andP [Hjk Hkn] _].
  have -> : q j k = q j (Ordinal Hkn) by [].
  by rewrite q_upper ?mulr0.
Qed.

Theorem cholesky_correct : Qmx *m Qmx^T = M.
Proof.
  apply/matrixP => i j; rewrite [LHS]mxE.
  have E : \sum_k Qmx i k * Qmx^T k j = \sum_(k < n) q i k * q j k.
    by apply: eq_bigr => k _; rewrite !mxE.
  rewrite E {E}.
  wlog Hji : i j / (j <= i)%N.
    move=> H; case/orP: (leq_total j i) => Hij; first exact: H.
    rewrite (eq_bigr (fun k : 'I_n => q j k * q i k)); last by move=> k _; rewrite mulrC.
    by rewrite H // Msym.
  rewrite row_product //.
  case: (ltngtP j i) Hji => // [Hlt _|Heq _].
  - rewrite (q_lower Hlt) q_diag divfK; last by rewrite lt0r_neq0 // sqrtr_gt0.
    rewrite (eq_bigr (fun k : 'I_j => q j (k : nat) * q i (k : nat))); last by move=> k _; rewrite mulrC.
    by rewrite addrC subrK Msym.
  - have -> : i = j by apply/ord_inj.
    rewrite q_diag -expr2 sqr_sqrtr; last exact: (ltW (Hpiv _)).
    by rewrite pivotE addrC subrK.
Qed.

End Cholesky.

(* ---------- strictly lower triangular matrices are nilpotent ---------- *)
Lemma strict_lower_pow p (N : 'M[F]_p.+1) k :
  (forall i j : 'I_p.+1, (i <= j)%N -> N i j = 0) ->
  forall i j : 'I_p.+1, (i < j + k)%N -> (N ^+ k) i j = 0.
Proof.
  move=> HN; elim: k => [|k IH] i j Hij.
  - rewrite expr0 mxE; rewrite addn0 in Hij.
    by case: eqP => // E; rewrite E ltnn in Hij.
  - rewrite exprS mxE big1 // => l _.
    case: (leqP i l) => Hil; first by rewrite HN ?mul0r.
    rewrite IH ?mulr0 //.
    rewrite addnS ltnS in Hij. exact: leq_trans Hil Hij.
Qed.

Lemma strict_lower_nilpotent p (N : 'M[F]_p.+1) :
  (forall i j : 'I_p.+1, (i <= j)%N -> N i j = 0) -> N ^+ p.+1 = 0.
Proof.
  move=> HN; apply/matrixP => i j; rewrite (strict_lower_pow HN) ?mxE //.
  exact: leq_trans (ltn_ord i) (leq_addl _ _).
Qed.

(* (1 + N) * sum_{k <= p} (-N)^k = 1 *)
Lemma neumann_inverse p (N : 'M[F]_p.+1) :
  (forall i j : 'I_p.+1, (i <= j)%N -> N i j = 0) ->
  (\sum_(k < p.+1) (- N) ^+ k) * (1 + N) = 1.
Proof.
  move=> HN.
  have Hn : (- N) ^+ p.+1 = 0 by rewrite exprNn (strict_lower_nilpotent HN) mulr0.
  have := subrX1 (- N) p.+1; rewrite Hn sub0r => E.
  have E2 : (1 + N) * (\sum_(k < p.+1) (- N) ^+ k) = 1.
    by rewrite -[1 + N]opprK opprD mulNr -[- 1 + - N]/(- 1 - N) [- 1 - N]addrC -E opprK.
  exact: (mulmx1C E2).
Qed.

(* ---------- the rest of decompose_for_tropical ---------- *)
Lemma mx_of_mzeros n : mx_of n (mzeros FS n) = 0.
Proof.
  apply/matrixP => i j; rewrite !mxE /mget /mzeros.
  by rewrite List.nth_repeat.
Qed.

Lemma foldl_mul (f : nat -> F) (l : list nat) a :
  List.fold_left (fun acc k => acc * f k) l a = a * \prod_(k <- l) f k.
Proof.
  elim: l a => [|k l IH] a /=; first by rewrite big_nil mulr1.
  by rewrite IH big_cons mulrA.
Qed.

Lemma prod_seq0 (f : nat -> F) n : \prod_(k <- List.seq 0 n) f k = \prod_(k < n) f k.
Proof. by rewrite seq_iota -[RHS](big_mkord xpredT) /index_iota subn0. Qed.

Section Decomp.
Variables (p : nat) (m : list F).
Let n := p.+1.
Let M := mx_of n m.
Hypothesis Msym : forall i j : 'I_n, M i j = M j i.
Hypothesis Hpiv : forall c : 'I_n, 0 < pivot FS n m c.

Let ql := cholesky FS n m.
Let Q : 'M[F]_n := Qmx n m.
Let q (r c : nat) : F := qe FS n m r c.
Let idg := inv_diag_of FS n ql.
Let Nl := n_matrix_of FS n ql idg.
Let Nm : 'M[F]_n := mx_of n Nl.

Lemma ql_entry (r c : 'I_n) : mget FS n ql r c = q r c.
Proof. by rewrite /ql cholesky_entry //; apply/ssrnat.ltP. Qed.

Lemma idg_nth (r : 'I_n) : List.nth r idg (s_zero FS) = (q r r)^-1.
Proof.
  rewrite /idg /inv_diag_of.
  rewrite (List.nth_indep _ 0 ((fun i => (mget FS n ql i i)^-1) 0%N)); last first.
    by rewrite List.map_length List.seq_length; apply/ssrnat.ltP.
  rewrite (List.map_nth (fun i => s_inv FS (mget FS n ql i i))) List.seq_nth; last exact/ssrnat.ltP.
  by rewrite /= ql_entry.
Qed.

Lemma Nm_entry (r c : 'I_n) : Nm r c = if (c < r)%N then (q r r)^-1 * q r c else 0.
Proof. by rewrite /Nm /Nl mxE mget_tabF nat_ltbE idg_nth ql_entry. Qed.

Lemma Nm_strict (i j : 'I_n) : (i <= j)%N -> Nm i j = 0.
Proof. by move=> Hij; rewrite Nm_entry ltnNge Hij. Qed.

(* Q = D (1 + N) *)
Let dv : 'rV[F]_n := \row_i q i i.
Lemma Q_factor : Q = diag_mx dv *m (1 + Nm).
Proof.
  apply/matrixP => i j; rewrite mul_diag_mx [LHS]mxE [RHS]mxE [dv _ _]mxE [(1 + Nm) _ _]mxE [(1 : 'M_n) _ _]mxE Nm_entry -/(q i j) -val_eqE /=.
  have Hd : q i i != 0 by rewrite lt0r_neq0 // (q_diag_pos Hpiv).
  case: (ltngtP j i) => [Hlt|Hgt|/ord_inj ->].
  - by rewrite add0r mulrA divff // mul1r.
  - by rewrite addr0 mulr0 /q (@q_upper n m i j Hgt).
  - by rewrite addr0 mulr1.
Qed.

Lemma mx_of_mmulR a b : mx_of n (mmul FS n a b) = mx_of n a * mx_of n b.
Proof. exact: mx_of_mmul. Qed.

(* the powers N, N^2, ... and the alternating sum *)
Lemma n_powers_nth k (last : list F) i : (i < k)%N ->
  mx_of n (List.nth i (n_powers FS n Nl k last) nil) = mx_of n last * Nm ^+ i.+1.
Proof.
  elim: k last i => [|k IH] last i //= Hi.
  case: i Hi => [|i] Hi /=.
  - by rewrite mx_of_mmulR expr1.
  - by rewrite IH // mx_of_mmulR -mulrA -exprS.
Qed.

Lemma n_powers_length (nm : list F) k last : List.length (n_powers FS n nm k last) = k.
Proof. by elim: k last => [|k IH] last //=; rewrite IH. Qed.

Let powers := Nl :: n_powers FS n Nl (n - 2) Nl.

Lemma powers_nth i : (i < List.length powers)%N -> mx_of n (List.nth i powers nil) = Nm ^+ i.+1.
Proof.
  rewrite /powers; case: i => [|i] /= Hi; first by rewrite expr1.
  rewrite n_powers_nth ?exprS //.
  by rewrite n_powers_length in Hi.
Qed.

Lemma powers_length : List.length powers = maxn 1 p.
Proof.
  rewrite /powers /= n_powers_length.
  by rewrite /n subn2 /=; case: (p) => [|p'] //=; rewrite maxnE subn1 /= add1n.
Qed.

Lemma alt_fold (l : list (list F)) s acc :
  mx_of n (List.fold_left (fun acc im => if Nat.even (fst im) then msub FS n acc (snd im) else madd FS n acc (snd im))
                          (List.combine (List.seq s (List.length l)) l) acc)
  = mx_of n acc + \sum_(i < List.length l) (-1) ^+ (s + i).+1 *: mx_of n (List.nth i l nil).
Proof.
  elim: l s acc => [|x l IH] s acc /=; first by rewrite big_ord0 addr0.
  rewrite IH big_ord_recl /= addn0 addrA; congr (_ + _); last first.
    by apply: eq_bigr => i _; rewrite /bump /= add1n addSn addnS.
  have Hev : Nat.even s = ~~ odd s.
    have H2 : forall k, Nat.even k = ~~ odd k /\ Nat.even k.+1 = odd k.
      elim=> [|k [H1 H2]] //; split; first by rewrite H2 /= negbK.
      by rewrite /= H1.
    by case: (H2 s).
  rewrite Hev; case Hs: (odd s) => /=.
  - by rewrite mx_of_madd -signr_odd /= Hs /= expr0 scale1r.
  - by rewrite mx_of_msub -signr_odd /= Hs /= expr1 scaleN1r.
Qed.

(* 1 + n_sum = sum_{k <= p} (-N)^k *)
Lemma n_sum_neumann : 1 + mx_of n (n_sum_of FS n Nl) = \sum_(k < p.+1) (- Nm) ^+ k.
Proof.
  rewrite /n_sum_of -/powers alt_fold mx_of_mzeros add0r big_ord_recl expr0; congr (_ + _).
  have E : forall i : 'I_(List.length powers),
      (-1) ^+ (0 + i).+1 *: mx_of n (List.nth i powers nil) = (- Nm) ^+ i.+1.
    by move=> i; rewrite add0n (powers_nth (ltn_ord i)) -[- Nm]scaleN1r exprZn.
  rewrite (eq_bigr _ (fun i _ => E i)).
  rewrite -(big_mkord xpredT (fun i => (- Nm) ^+ i.+1)) -[RHS](big_mkord xpredT (fun i => (- Nm) ^+ i.+1)).
  rewrite powers_length.
  have [p0|ppos] := posnP p; last by rewrite (maxn_idPr ppos).
  have Hm : maxn 1 p = 1%N by rewrite p0.
  rewrite Hm big_nat1 [RHS]big_geq ?p0 // expr1.
  have -> : Nm = 0; last by rewrite oppr0.
  apply/matrixP => i j; rewrite Nm_strict ?mxE //.
  have Hi : (i <= p)%N by rewrite -ltnS; exact: ltn_ord.
  by apply: (leq_trans Hi); rewrite p0.
Qed.

Let Nsum : 'M[F]_n := mx_of n (n_sum_of FS n Nl).
Let iql := inverse_q_of FS n (n_sum_of FS n Nl) idg.
Let IQ : 'M[F]_n := mx_of n iql.
Let idgv : 'rV[F]_n := \row_i (q i i)^-1.

Lemma IQ_factor : IQ = (1 + Nsum) *m diag_mx idgv.
Proof.
  apply/matrixP => i j; rewrite mul_mx_diag [LHS]mxE /iql /inverse_q_of mget_tabF idg_nth.
  rewrite [RHS]mxE [idgv _ _]mxE [(1 + Nsum) _ _]mxE [(1 : 'M_n) _ _]mxE [Nsum _ _]mxE nat_eqbE -val_eqE.
  rewrite -[s_mul FS]/( *%R) -[s_add FS]/( +%R) -[s_one FS]/(1 : F).
  by case: (val i == val j); rewrite ?add0r // addrC.
Qed.

Lemma diag_inv : diag_mx idgv *m diag_mx dv = 1%:M.
Proof.
  rewrite mulmx_diag -diag_const_mx; congr diag_mx.
  apply/rowP => j; rewrite !mxE mulVf // lt0r_neq0 //.
  exact: (q_diag_pos Hpiv).
Qed.

(* IQ is the inverse of the Cholesky factor *)
Theorem IQ_inverse : IQ *m Q = 1%:M /\ Q *m IQ = 1%:M.
Proof.
  have H : IQ *m Q = 1%:M.
    rewrite IQ_factor Q_factor mulmxA -[_ *m diag_mx idgv *m _]mulmxA diag_inv mulmx1.
    rewrite -[1 + Nsum]/(1 + mx_of n (n_sum_of FS n Nl)) n_sum_neumann.
    exact: (neumann_inverse Nm_strict).
  by split => //; apply: mulmx1C.
Qed.

(* the four results of decompose_for_tropical *)
Theorem decomp_fields_correct :
  let r := decomp_fields FS n m in
  [/\ mx_of n (d_q_transposed r) = Q^T,
      mx_of n (d_q_transposed_inverse r) *m Q^T = 1%:M,
      mx_of n (d_inverse r) *m M = 1%:M /\ M *m mx_of n (d_inverse r) = 1%:M,
      (mx_of n (d_inverse r))^T = mx_of n (d_inverse r) &
      d_determinant r = \det M].
Proof.
  have [H1 H2] := IQ_inverse.
  have HQ : Q *m Q^T = M by exact: cholesky_correct.
  have EQ : mx_of n ql = Q by exact: mx_of_cholesky.
  rewrite /decomp_fields -/ql -/idg -/Nl -/iql /=.
  rewrite !mx_of_mtranspose mx_of_mmul mx_of_mtranspose EQ -/IQ.
  split=> //.
  - by rewrite -trmx_mul H2 trmx1.
  - have E : IQ^T *m IQ *m M = 1%:M.
      by rewrite -HQ mulmxA -[IQ^T *m IQ *m Q]mulmxA H1 mulmx1 -trmx_mul H2 trmx1.
    by split => //; apply: mulmx1C.
  - by rewrite trmx_mul trmxK.
  - rewrite -HQ det_mulmx det_tr (det_trig (Q_trig n m)).
    rewrite /det_q_of foldl_mul mul1r prod_seq0.
    by congr (_ * _); apply: eq_bigr => i _; rewrite ql_entry mxE.
Qed.

(* with positive pivots the routine returns Ok (stability test off) *)
Lemma det_q_pos : 0 < det_q_of FS n ql.
Proof.
  rewrite /det_q_of foldl_mul mul1r prod_seq0.
  apply: prodr_gt0 => i _; rewrite ql_entry.
  exact: (q_diag_pos Hpiv).
Qed.

Theorem decompose_ok_of_pivots :
  decompose_for_tropical FS n m None = Ok (inr (decomp_fields FS n m)).
Proof.
  rewrite /decompose_for_tropical -/ql.
  have H := det_q_pos.
  have -> : s_eqb FS (det_q_of FS n ql) (s_zero FS) = false by apply/negbTE; rewrite lt0r_neq0.
  have -> : s_eqb FS (s_mul FS (det_q_of FS n ql) (det_q_of FS n ql)) (s_zero FS) = false.
    by apply/negbTE; rewrite lt0r_neq0 // mulr_gt0.
  by [].
Qed.

End Decomp.

End Bridge.
