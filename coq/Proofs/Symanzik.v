(* Proofs/Symanzik.v -- matrix-level algebra behind C08, C09, C10 (MathComp, any field F
   for the invariances, a real closed field for the momentum map):
   L = S^T X S, u = S^T X P, V = sum x (m^2 + p^2) - tr(u^T L^-1 u), k = a Q^-T q - L^-1 u. *)
From Coq Require Import ZArith List.
From mathcomp Require Import all_ssreflect all_algebra.
From mathcomp Require Import ring.
Set Implicit Arguments.
Unset Strict Implicit.
Unset Printing Implicit Defensive.
Import Order.TTheory GRing.Theory Num.Theory.
Local Open Scope ring_scope.

Section Algebra.
Variable F : rcfType.
Variables (nE nL nD : nat).
Variable S : 'M[F]_(nE, nL).          (* loop signature *)
Variable x : 'rV[F]_nE.                (* Feynman parameters *)
Variable m2 : 'rV[F]_nE.               (* squared masses *)
Variable P : 'M[F]_(nE, nD).           (* edge shifts *)

Definition Xd := diag_mx x.
Definition Lm : 'M[F]_nL := S^T *m Xd *m S.
Definition Um : 'M[F]_(nL, nD) := S^T *m Xd *m P.
(* sum_e x_e (m_e^2 + |p_e|^2) *)
Definition base (P0 : 'M[F]_(nE, nD)) : F := \sum_e x 0 e * (m2 0 e + \sum_d P0 e d ^+ 2).
Definition Vpoly : F := base P - \tr (Um^T *m invmx Lm *m Um).

Lemma Lm_entry i j : Lm i j = \sum_e S e i * x 0 e * S e j.
Proof. by rewrite /Lm /Xd mul_mx_diag mxE; apply: eq_bigr => e _; rewrite !mxE. Qed.

Lemma Um_entry l d : Um l d = \sum_e S e l * x 0 e * P e d.
Proof. by rewrite /Um /Xd mul_mx_diag mxE; apply: eq_bigr => e _; rewrite !mxE. Qed.

Lemma Lm_sym : Lm^T = Lm.
Proof. by rewrite /Lm !trmx_mul trmxK tr_diag_mx mulmxA. Qed.

Lemma quad_form (A : 'M[F]_(nE, nD)) : \sum_e x 0 e * (\sum_d A e d ^+ 2) = \tr (A^T *m Xd *m A).
Proof.
  rewrite /mxtrace. rewrite (eq_bigr (fun d : 'I_nD => \sum_e x 0 e * A e d ^+ 2)); last first.
    move=> d _; rewrite !mxE. apply: eq_bigr => e _.
    rewrite !mxE (bigD1 e) //= big1 ?addr0; last by move=> k Hk; rewrite !mxE (negbTE Hk) mulr0n mulr0.
    by rewrite !mxE eqxx mulr1n expr2 mulrAC mulrC mulrA.
  rewrite exchange_big /=; apply: eq_bigr => e _.
  by rewrite mulr_sumr.
Qed.

Lemma base_split (P0 : 'M[F]_(nE, nD)) :
  base P0 = \sum_e x 0 e * m2 0 e + \tr (P0^T *m Xd *m P0).
Proof.
  rewrite -quad_form -big_split /=; apply: eq_bigr => e _.
  by rewrite mulrDr.
Qed.

(* ---------- C10: the momentum map ---------- *)
Section Momentum.
Variables (Q : 'M[F]_nL) (q : 'M[F]_(nL, nD)) (lam : F).
Hypothesis HQ : Q *m Q^T = Lm.
Hypothesis Qunit : Q \in unitmx.
Hypothesis Hpos : 0 <= Vpoly / lam / 2%:R.

Let alpha := Num.sqrt (Vpoly / lam / 2%:R).
(* k = alpha Q^-T q - L^-1 u *)
Definition Kmom : 'M[F]_(nL, nD) := alpha *: (invmx Q^T *m q) - invmx Lm *m Um.
(* edge momenta S k + p *)
Definition edge_mom : 'M[F]_(nE, nD) := S *m Kmom + P.

Lemma Lm_unit : Lm \in unitmx.
Proof. by rewrite -HQ unitmx_mul unitmx_tr Qunit. Qed.

Lemma invLm_sym : (invmx Lm)^T = invmx Lm.
Proof. by rewrite trmx_inv Lm_sym. Qed.

Lemma tr_expand (K : 'M[F]_(nL, nD)) :
  \tr ((S *m K + P)^T *m Xd *m (S *m K + P)) =
  \tr (K^T *m Lm *m K) + \tr (K^T *m Um) + \tr (K^T *m Um) + \tr (P^T *m Xd *m P).
Proof.
  have Et : (S *m K + P)^T = K^T *m S^T + P^T by rewrite [LHS]linearD /= trmx_mul.
  rewrite Et !mulmxDl !mulmxDr !mxtraceD.
  have E1 : K^T *m S^T *m Xd *m (S *m K) = K^T *m Lm *m K by rewrite /Lm !mulmxA.
  have E2 : K^T *m S^T *m Xd *m P = K^T *m Um by rewrite /Um !mulmxA.
  have E3 : \tr (P^T *m Xd *m (S *m K)) = \tr (K^T *m Um).
    by rewrite -mxtrace_tr !trmx_mul trmxK tr_diag_mx /Um !mulmxA.
  by rewrite E1 E2 E3 !addrA.
Qed.

Lemma tr_qq : \tr (q^T *m q) = \sum_l \sum_d q l d ^+ 2.
Proof.
  rewrite /mxtrace exchange_big /=; apply: eq_bigr => d _.
  by rewrite !mxE; apply: eq_bigr => l _; rewrite !mxE expr2.
Qed.

Theorem energy_identity :
  \sum_e x 0 e * (\sum_d edge_mom e d ^+ 2 + m2 0 e) =
  Vpoly + alpha ^+ 2 * (\sum_l \sum_d q l d ^+ 2).
Proof.
  have HL := Lm_unit.
  transitivity (\sum_e x 0 e * m2 0 e + \tr (edge_mom^T *m Xd *m edge_mom)).
    rewrite -quad_form -big_split /=; apply: eq_bigr => e _.
    by rewrite mulrDr addrC.
  rewrite /Vpoly base_split -addrA -addrA; congr (_ + _).
  rewrite /edge_mom tr_expand.
  set A := invmx Q^T *m q. set B := invmx Lm *m Um.
  have EK : Kmom = alpha *: A - B by [].
  have HA : A^T *m Lm *m A = q^T *m q.
    rewrite /A trmx_mul -HQ !mulmxA trmx_inv trmxK.
    rewrite -[q^T *m invmx Q *m Q]mulmxA mulVmx // mulmx1.
    by rewrite -[q^T *m Q^T *m invmx Q^T]mulmxA mulmxV ?unitmx_tr // mulmx1.
  have HB : Lm *m B = Um by rewrite /B mulmxA mulmxV // mul1mx.
  have HBt : B^T *m Lm = Um^T by rewrite -[Lm in LHS]Lm_sym -trmx_mul HB.
  have T1 : \tr (A^T *m Um) = \tr (Um^T *m A) by rewrite -mxtrace_tr trmx_mul trmxK.
  have T2 : \tr (Um^T *m B) = \tr (Um^T *m invmx Lm *m Um) by rewrite /B mulmxA.
  have T3 : \tr (B^T *m Um) = \tr (Um^T *m invmx Lm *m Um).
    by rewrite /B trmx_mul invLm_sym mulmxA.
  (* K^T L K *)
  have TK : \tr (Kmom^T *m Lm *m Kmom) =
            alpha ^+ 2 * \tr (q^T *m q) - alpha * \tr (Um^T *m A) - alpha * \tr (Um^T *m A)
            + \tr (Um^T *m invmx Lm *m Um).
    have Et2 : (alpha *: A - B)^T = alpha *: A^T - B^T by rewrite [LHS]linearB /= linearZ.
    rewrite EK Et2 !mulmxBl !mulmxBr !raddfB /=.
    rewrite -!scalemxAl -!scalemxAr -?scalemxAl !mxtraceZ HA.
    rewrite -[A^T *m Lm *m B]mulmxA HB HBt T1 T2.
    rewrite expr2. ring.
  have TU : \tr (Kmom^T *m Um) = alpha * \tr (Um^T *m A) - \tr (Um^T *m invmx Lm *m Um).
    have Et2 : (alpha *: A - B)^T = alpha *: A^T - B^T by rewrite [LHS]linearB /= linearZ.
    by rewrite EK Et2 mulmxBl raddfB /= -scalemxAl mxtraceZ T1 T3.
  rewrite TK TU tr_qq. ring.
Qed.

End Momentum.
End Algebra.

Arguments Lm : simpl never.
Arguments Um : simpl never.
Arguments Vpoly : simpl never.
Arguments base : simpl never.
Arguments Xd : simpl never.

(* ---------- C08 / C09: independence of the loop-momentum routing ---------- *)
Section Routing.
Variable F : rcfType.
Variables (nE nL nD : nat).
Variable S : 'M[F]_(nE, nL).
Variable x m2 : 'rV[F]_nE.
Variable P : 'M[F]_(nE, nD).
Hypothesis HL : Lm S x \in unitmx.

(* (i) constant offsets of the loop momenta: p -> p + S a *)
Theorem offset_invariance (a : 'M[F]_(nL, nD)) : Vpoly S x m2 (P + S *m a) = Vpoly S x m2 P.
Proof.
  rewrite /Vpoly !base_split.
  have EU : Um S x (P + S *m a) = Um S x P + Lm S x *m a by rewrite /Um /Lm mulmxDr !mulmxA.
  have Et : (P + S *m a)^T = P^T + a^T *m S^T by rewrite [LHS]linearD /= [(S *m a)^T]trmx_mul.
  have Eu : (Um S x P + Lm S x *m a)^T = (Um S x P)^T + a^T *m Lm S x.
    by rewrite [LHS]linearD /= [(Lm S x *m a)^T]trmx_mul Lm_sym.
  rewrite EU Et Eu !mulmxDl !mulmxDr !raddfD /=.
  have L1 : a^T *m Lm S x *m invmx (Lm S x) = a^T by rewrite -mulmxA mulmxV // mulmx1.
  have L2 : invmx (Lm S x) *m (Lm S x *m a) = a by rewrite mulmxA mulVmx // mul1mx.
  rewrite L1 -[(Um S x P)^T *m invmx (Lm S x) *m (Lm S x *m a)]mulmxA L2.
  have T1 : \tr (a^T *m S^T *m Xd x *m P) = \tr (a^T *m Um S x P) by rewrite /Um !mulmxA.
  have T2 : \tr (P^T *m Xd x *m (S *m a)) = \tr (a^T *m Um S x P).
    by rewrite -mxtrace_tr !trmx_mul trmxK tr_diag_mx /Um !mulmxA.
  have T3 : \tr (a^T *m S^T *m Xd x *m (S *m a)) = \tr (a^T *m Lm S x *m a) by rewrite /Lm !mulmxA.
  have T4 : \tr ((Um S x P)^T *m a) = \tr (a^T *m Um S x P) by rewrite -mxtrace_tr trmx_mul trmxK.
  rewrite T1 T2 T3 T4 [a^T *m (Lm S x *m a)]mulmxA. ring.
Qed.

(* (ii) change of cycle basis and edge orientation: S -> Dg S Mc, p -> Dg p with Dg = diag(+-1) *)
Variable sg : 'rV[F]_nE.
Hypothesis Hsg : forall e, sg 0 e * sg 0 e = 1.
Variable Mc : 'M[F]_nL.
Hypothesis HMc : Mc \in unitmx.
Let Dg := diag_mx sg.
Let S' := Dg *m S *m Mc.
Let P' := Dg *m P.

Lemma DXD : Dg^T *m Xd x *m Dg = Xd x.
Proof.
  rewrite /Dg /Xd tr_diag_mx !mulmx_diag; congr diag_mx.
  by apply/rowP => e; rewrite !mxE mulrAC Hsg mul1r.
Qed.

Lemma DXD_absorb k (Y : 'M[F]_(nE, k)) : Dg^T *m (Xd x *m (Dg *m Y)) = Xd x *m Y.
Proof. by rewrite !mulmxA DXD. Qed.

Lemma Lm_routing : Lm S' x = Mc^T *m Lm S x *m Mc.
Proof. by rewrite /Lm /S' !trmx_mul -!mulmxA DXD_absorb. Qed.

Lemma Um_routing : Um S' x P' = Mc^T *m Um S x P.
Proof. by rewrite /Um /S' /P' !trmx_mul -!mulmxA DXD_absorb. Qed.

Lemma base_routing : base x m2 P' = base x m2 P.
Proof.
  apply: eq_bigr => e _; congr (_ * (_ + _)); apply: eq_bigr => d _.
  rewrite /P' /Dg mul_diag_mx mxE expr2 mulrACA Hsg mul1r expr2. by [].
Qed.

(* U = det L changes by det(Mc)^2: invariant for unimodular Mc *)
Theorem det_routing : \det (Lm S' x) = (\det Mc) ^+ 2 * \det (Lm S x).
Proof. by rewrite Lm_routing !det_mulmx det_tr expr2 mulrAC. Qed.

Theorem V_routing : Vpoly S' x m2 P' = Vpoly S x m2 P.
Proof.
  rewrite /Vpoly base_routing Lm_routing Um_routing; congr (_ - \tr _).
  move: (Lm S x) (Um S x P) HL => LL UU HLL.
  have HMt : Mc^T \in unitmx by rewrite unitmx_tr.
  have Einv : invmx (Mc^T *m LL *m Mc) = invmx Mc *m invmx LL *m invmx Mc^T.
    have E1 : Mc^T *m LL *m Mc *m (invmx Mc *m invmx LL *m invmx Mc^T) = 1%:M.
      by rewrite -!mulmxA (mulKVmx HMc) (mulKVmx HLL) mulmxV.
    have [U3 _] := mulmx1_unit E1.
    by rewrite -[RHS](mulKmx U3) E1 mulmx1.
  rewrite Einv trmx_mul trmxK -!mulmxA (mulKVmx HMc).
  by rewrite (mulKmx HMt).
Qed.

End Routing.

(* ---------- homogeneity: U(s x) = s^L U(x), V(s x) = s V(x) (C11, C07) ---------- *)
Section Homogeneity.
Variable F : rcfType.
Variables (nE nL nD : nat) (S : 'M[F]_(nE, nL)) (x m2 : 'rV[F]_nE) (P : 'M[F]_(nE, nD)) (s : F).

Lemma Lm_scale : Lm S (s *: x) = s *: Lm S x.
Proof. by rewrite /Lm /Xd linearZ /= -scalemxAr -scalemxAl. Qed.

(* U(s x) = s^L U(x) *)
Lemma U_homogeneous : \det (Lm S (s *: x)) = s ^+ nL * \det (Lm S x).
Proof. by rewrite Lm_scale detZ. Qed.

Lemma Um_scale : Um S (s *: x) P = s *: Um S x P.
Proof. by rewrite /Um /Xd linearZ /= -scalemxAr -scalemxAl. Qed.

Lemma base_scale : base (s *: x) m2 P = s * base x m2 P.
Proof. by rewrite /base mulr_sumr; apply: eq_bigr => e _; rewrite mxE mulrA. Qed.

(* V(s x) = s V(x) *)
Lemma V_homogeneous : s != 0 -> Lm S x \in unitmx ->
  Vpoly S (s *: x) m2 P = s * Vpoly S x m2 P.
Proof.
  move=> Hs HL. rewrite /Vpoly base_scale Um_scale Lm_scale invmxZ; last by rewrite unitmxZ ?unitfE.
  rewrite [(s *: _)^T]linearZ /= -!scalemxAl -!scalemxAr !scalerA [\tr _]linearZ /= mulrBr.
  by rewrite -scalemxAl [\tr _]linearZ /= mulrA mulfK.
Qed.
End Homogeneity.
