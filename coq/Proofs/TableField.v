(* Proofs/TableField.v -- facts about the table that need the scalar type to be
   an ordered field: positivity of J (C05), the edge probabilities sum to one
   (C04), J as a sum over all edge orderings (C04). *)
From Coq Require Import ZArith NArith List Bool Lia Arith Field Permutation.
From MT Require Import Model.Scalar Model.Graph Model.Table Proofs.OrdField Proofs.TableProofs.
Import ListNotations.

Lemma edges_of_nonempty E g : (0 < g)%N -> (g < 2 ^ N.of_nat E)%N -> edges_of E g <> [].
Proof.
  intros Hpos Hlt Hnil.
  assert (Hne : g <> 0%N) by lia.
  pose proof (N.bit_log2 g Hne) as Hb.
  assert (Hl : (N.log2 g < N.of_nat E)%N) by (apply N.log2_lt_pow2; lia).
  assert (Hin : In (N.to_nat (N.log2 g)) (edges_of E g)).
  { unfold edges_of. apply filter_In. split; [apply in_seq; lia|].
    unfold has_edge. rewrite N2Nat.id. exact Hb. }
  rewrite Hnil in Hin. exact Hin.
Qed.

Lemma has_edge_pop g e f : has_edge g e = true ->
  has_edge (pop_edge g e) f = has_edge g f && negb (Nat.eqb f e).
Proof.
  intros He. unfold has_edge, pop_edge in *. rewrite N.lxor_spec, bit_pow.
  destruct (Nat.eqb_spec f e) as [->|Hne].
  - rewrite He, N.pow2_bits_true. reflexivity.
  - rewrite N.pow2_bits_false by lia. rewrite xorb_false_r, andb_true_r. reflexivity.
Qed.

Lemma remove_filter (P : nat -> bool) x l :
  remove Nat.eq_dec x (filter P l) = filter (fun y => P y && negb (Nat.eqb y x)) l.
Proof.
  induction l as [|y l IH]; [reflexivity|]. cbn [filter].
  destruct (P y) eqn:HP; cbn [andb].
  - cbn [remove]. destruct (Nat.eq_dec x y) as [->|Hne].
    + rewrite Nat.eqb_refl. cbn [negb]. exact IH.
    + replace (Nat.eqb y x) with false by (symmetry; apply Nat.eqb_neq; congruence).
      cbn [negb]. rewrite IH. reflexivity.
  - exact IH.
Qed.

Lemma edges_of_pop E g e : has_edge g e = true ->
  edges_of E (pop_edge g e) = remove Nat.eq_dec e (edges_of E g).
Proof.
  intros He. unfold edges_of. rewrite remove_filter. apply filter_ext.
  intros f. apply has_edge_pop, He.
Qed.

Lemma edges_of_zero E : edges_of E 0%N = [].
Proof.
  destruct (edges_of E 0%N) as [|e l] eqn:Hl; [reflexivity|exfalso].
  assert (Hin : In e (edges_of E 0%N)) by (rewrite Hl; left; reflexivity).
  apply edges_of_has in Hin. destruct Hin as [Hin _]. unfold has_edge in Hin.
  rewrite N.bits_0 in Hin. discriminate.
Qed.

Lemma edges_of_NoDup E g : NoDup (edges_of E g).
Proof. unfold edges_of. apply NoDup_filter, seq_NoDup. Qed.

Lemma remove_length_nodup x l : NoDup l -> In x l ->
  length (remove Nat.eq_dec x l) = length l - 1.
Proof.
  induction l as [|y l IH]; intros Hnd Hin; [destruct Hin|].
  inversion Hnd as [|? ? Hny Hnd']; subst. cbn [remove].
  destruct (Nat.eq_dec x y) as [->|Hne].
  - rewrite notin_remove by exact Hny. cbn [length]. lia.
  - destruct Hin as [->|Hin]; [congruence|]. cbn [length]. rewrite IH by assumption.
    destruct l; [destruct Hin|cbn [length]; lia].
Qed.

(* all orderings of a list of distinct edges: choose the first, then order the rest *)
Fixpoint orderings (fuel : nat) (l : list nat) : list (list nat) :=
  match fuel with
  | O => [[]]
  | S k =>
      match l with
      | [] => [[]]
      | _ => flat_map (fun x => map (cons x) (orderings k (remove Nat.eq_dec x l))) l
      end
  end.

Section TableField.
Context {C : Type} (SC : Scalar C C) (gam : C -> C) (OF : OrdField SC).

Notation zero := (s_zero SC).
Notation dentry := (dentry SC).

Add Field TFfield : (of_field SC OF).

Lemma csum_is_fsum l : csum SC l = fsum_from SC zero l.
Proof. unfold csum, fsum_from. rewrite (f_neg_0 SC OF). reflexivity. Qed.

Lemma table_entry_at tg D t g :
  generate_from_tropical SC gam tg D = BuildOk t ->
  let E := length (tg_edges tg) in
  (g < 2 ^ N.of_nat E)%N ->
  t_dod (nth (N.to_nat g) (tb_entries t) dentry) = snd (entry_shape SC tg D (N.ones (N.of_nat E)) g).
Proof.
  intros Hb E Hg. pose proof (generate_cases SC gam tg D) as Hc. rewrite Hb in Hc. cbv zeta in Hc.
  destruct Hc as [HE [_ [Hent _]]]. fold E in Hent.
  set (sh := map (entry_shape SC tg D (N.ones (N.of_nat E))) (ids_upto E)) in *.
  assert (Hlsh : length sh = 2 ^ E) by (unfold sh; rewrite map_length; apply ids_upto_length).
  pose proof (lt_pow2_nat g E Hg) as Hk.
  rewrite Hent, nth_entries by (try lia; rewrite fill_j_length; lia).
  cbn [mk_entry t_dod fst snd]. unfold sh.
  rewrite (nth_indep _ (dshape SC) (entry_shape SC tg D (N.ones (N.of_nat E)) 0%N))
    by (rewrite map_length, ids_upto_length; exact Hk).
  rewrite map_nth, ids_upto_nth by exact Hk. rewrite N2Nat.id. reflexivity.
Qed.

Section WithTable.
Variables (tg : tgraph C) (D : nat) (t : table C).
Hypothesis Hb : generate_from_tropical SC gam tg D = BuildOk t.
Let E := length (tg_edges tg).
Let full := N.ones (N.of_nat E).
Let J (g : sid) := t_j (nth (N.to_nat g) (tb_entries t) dentry).
Let om (g : sid) := t_dod (nth (N.to_nat g) (tb_entries t) dentry).

Lemma om_empty : om 0%N = s_one SC.
Proof.
  unfold om. rewrite (table_entry_at tg D t 0%N Hb).
  - reflexivity.
  - apply N.neq_0_lt_0, N.pow_nonzero; discriminate.
Qed.

Lemma om_pos_proper g : (0 < g)%N -> (g < 2 ^ N.of_nat E)%N -> g <> full -> flt SC zero (om g).
Proof.
  intros Hpos Hlt Hnf. unfold om. rewrite (table_entry_at tg D t g Hb Hlt).
  pose proof (generate_cases SC gam tg D) as Hc. rewrite Hb in Hc. cbv zeta in Hc.
  destruct Hc as [_ [Hall _]]. specialize (Hall g Hlt). unfold divergent in Hall.
  fold E in Hall. fold full in Hall.
  replace (negb (is_empty g)) with true in Hall by (symmetry; apply negb_true_iff, N.eqb_neq; lia).
  replace (negb (N.eqb g full)) with true in Hall by (symmetry; apply negb_true_iff, N.eqb_neq; exact Hnf).
  rewrite !andb_true_r in Hall. apply (f_leb_false_lt SC OF). exact Hall.
Qed.

Lemma om_pos_sub g e : (g < 2 ^ N.of_nat E)%N -> has_edge g e = true -> flt SC zero (om (pop_edge g e)).
Proof.
  intros Hlt He. pose proof (pop_edge_lt g e He) as Hp.
  destruct (N.eq_dec (pop_edge g e) 0) as [H0|Hn0].
  - rewrite H0, om_empty. apply (f_lt_0_1 SC OF).
  - apply om_pos_proper; [lia|lia|].
    unfold full. rewrite N.ones_equiv. lia.
Qed.

(* C05: every J value of an accepted table is positive *)
Lemma J_pos g : (g < 2 ^ N.of_nat E)%N -> flt SC zero (J g).
Proof.
  induction g as [g IH] using (well_founded_induction N.lt_wf_0). intros Hlt.
  destruct (table_J_recursion SC gam tg D t Hb) as [H0 Hrec]. fold E in Hrec.
  destruct (N.eq_dec g 0) as [->|Hne].
  - unfold J. rewrite H0. apply (f_lt_0_1 SC OF).
  - unfold J. rewrite (Hrec g) by lia. rewrite csum_is_fsum.
    apply (fsum_pos SC OF).
    + apply (f_le_refl SC OF).
    + intros Hnil. apply map_eq_nil in Hnil. revert Hnil. apply edges_of_nonempty; lia.
    + intros x Hx. apply in_map_iff in Hx. destruct Hx as [e [<- He]].
      apply edges_of_has in He. destruct He as [He _].
      pose proof (pop_edge_lt g e He) as Hp.
      apply (f_div_pos SC OF).
      * apply IH; lia.
      * apply om_pos_sub; assumption.
Qed.

Lemma J_and_omega_pos g : (g < 2 ^ N.of_nat E)%N ->
  flt SC zero (J g) /\ (g <> full -> flt SC zero (om g)).
Proof.
  intros Hlt. split; [apply J_pos, Hlt|]. intros Hnf.
  destruct (N.eq_dec g 0) as [->|Hne].
  - rewrite om_empty. apply (f_lt_0_1 SC OF).
  - apply om_pos_proper; [lia|exact Hlt|exact Hnf].
Qed.

(* C04: the edge probabilities J(g\e) / J(g) / omega(g\e) sum to one *)
Lemma probs_sum_one g : (0 < g)%N -> (g < 2 ^ N.of_nat E)%N ->
  fsum_from SC zero
    (map (fun e => s_div SC (s_div SC (J (pop_edge g e)) (J g)) (om (pop_edge g e))) (edges_of E g))
  = s_one SC.
Proof.
  intros Hpos Hlt.
  assert (HJ : J g <> zero) by (apply not_eq_sym, (f_lt_neq SC OF), J_pos, Hlt).
  destruct (table_J_recursion SC gam tg D t Hb) as [_ Hrec]. fold E in Hrec.
  specialize (Hrec g Hpos Hlt). fold (J g) in Hrec. rewrite csum_is_fsum in Hrec.
  transitivity (fsum_from SC (s_div SC zero (J g))
    (map (fun x => s_div SC x (J g))
         (map (fun e => s_div SC (J (pop_edge g e)) (om (pop_edge g e))) (edges_of E g)))).
  - replace (s_div SC zero (J g)) with zero.
    2:{ symmetry. rewrite (f_div_def SC OF). apply (f_mul_0_l SC OF). }
    rewrite map_map. f_equal. apply map_ext_in. intros e He.
    apply edges_of_has in He. destruct He as [He _].
    assert (Ho : om (pop_edge g e) <> zero)
      by (apply not_eq_sym, (f_lt_neq SC OF), om_pos_sub; assumption).
    pose proof (OF_ring SC OF) as Rth. pose proof (of_field SC OF) as Fth.
    rewrite !(f_div_def SC OF).
    rewrite <- !(f_mul_assoc SC OF). f_equal. apply (f_mul_comm SC OF).
  - rewrite (fsum_scale_div SC OF) by exact HJ.
    unfold J, om in *. rewrite <- Hrec. apply (f_div_same SC OF). exact HJ.
Qed.

(* product of 1/omega along the chain of subgraphs left by removing s_1, s_2, ... from g *)
Fixpoint chain_prod (g : sid) (s : list nat) : C :=
  match s with
  | [] => s_one SC
  | e :: s' => s_mul SC (s_inv SC (om (pop_edge g e))) (chain_prod (pop_edge g e) s')
  end.

Lemma fsum_flat_map {A} (f : A -> list C) l :
  fsum_from SC zero (flat_map f l) = fsum_from SC zero (map (fun x => fsum_from SC zero (f x)) l).
Proof.
  induction l as [|x l IH]; [reflexivity|].
  cbn [flat_map map]. rewrite (fsum_app SC OF), (fsum_cons SC OF), IH. reflexivity.
Qed.

Lemma fsum_scale_l c l :
  fsum_from SC zero (map (fun x => s_mul SC c x) l) = s_mul SC c (fsum_from SC zero l).
Proof.
  pose proof (OF_ring SC OF) as Rth.
  induction l as [|x l IH].
  - unfold fsum_from. cbn. rewrite (f_mul_comm SC OF). symmetry. apply (f_mul_0_l SC OF).
  - cbn [map]. rewrite !(fsum_cons SC OF), IH.
    symmetry. apply (Rdistr_l Rth) || idtac.
    rewrite (f_mul_comm SC OF c (s_add SC x _)).
    rewrite (Rdistr_l Rth). rewrite !(f_mul_comm SC OF _ c). reflexivity.
Qed.

(* C04: J(g) is the sum over all orderings of the edges of g of the product of
   inverse generalised degrees of divergence along the ordering *)
Lemma J_orderings g : (g < 2 ^ N.of_nat E)%N ->
  J g = fsum_from SC zero (map (chain_prod g) (orderings (length (edges_of E g)) (edges_of E g))).
Proof.
  induction g as [g IH] using (well_founded_induction N.lt_wf_0). intros Hlt.
  destruct (table_J_recursion SC gam tg D t Hb) as [H0 Hrec]. fold E in Hrec.
  destruct (N.eq_dec g 0) as [->|Hne].
  - unfold J. rewrite H0, edges_of_zero. cbn. unfold fsum_from. cbn. symmetry. apply (f_add_0_l SC OF).
  - unfold J at 1. rewrite (Hrec g) by lia. rewrite csum_is_fsum.
    assert (Hnn : edges_of E g <> []) by (apply edges_of_nonempty; lia).
    pose proof (edges_of_NoDup E g) as Hnd.
    destruct (edges_of E g) as [|e0 l0] eqn:Hl; [congruence|].
    cbn [length orderings]. rewrite <- Hl.
    rewrite flat_map_concat_map, concat_map, map_map, <- flat_map_concat_map.
    rewrite fsum_flat_map.
    f_equal. apply map_ext_in. intros e He.
    assert (Hlen : length l0 = length (edges_of E (pop_edge g e))).
    { rewrite (edges_of_pop E g e) by (apply edges_of_has in He; tauto).
      rewrite remove_length_nodup; [rewrite Hl; cbn [length]; lia|rewrite Hl; exact Hnd|exact He]. }
    apply edges_of_has in He. destruct He as [He _].
    pose proof (pop_edge_lt g e He) as Hp.
    rewrite map_map. cbn [chain_prod].
    rewrite <- (map_map (chain_prod (pop_edge g e)) (fun x => s_mul SC (s_inv SC (om (pop_edge g e))) x)).
    rewrite fsum_scale_l.
    rewrite <- (edges_of_pop E g e He). rewrite Hlen.
    rewrite <- (IH (pop_edge g e)) by lia.
    rewrite (f_div_def SC OF). apply (f_mul_comm SC OF).
Qed.

(* C01 (T5): the probability of a whole removal order telescopes *)
Fixpoint valid_order (g : sid) (s : list nat) : Prop :=
  match s with
  | [] => g = 0%N
  | e :: s' => has_edge g e = true /\ valid_order (pop_edge g e) s'
  end.

Fixpoint prob_chain (g : sid) (s : list nat) : C :=
  match s with
  | [] => s_one SC
  | e :: s' => s_mul SC (s_div SC (s_div SC (J (pop_edge g e)) (J g)) (om (pop_edge g e)))
                        (prob_chain (pop_edge g e) s')
  end.

Lemma order_probability g s : (g < 2 ^ N.of_nat E)%N -> valid_order g s ->
  prob_chain g s = s_div SC (chain_prod g s) (J g).
Proof.
  revert g; induction s as [|e s IH]; intros g Hlt Hv; cbn [valid_order prob_chain chain_prod] in *.
  - subst g. destruct (table_J_recursion SC gam tg D t Hb) as [H0 _]. unfold J. rewrite H0.
    symmetry. apply (f_div_1 SC OF).
  - destruct Hv as [He Hv]. pose proof (pop_edge_lt g e He) as Hp.
    rewrite (IH (pop_edge g e)) by (try lia; exact Hv).
    assert (HJg : J g <> zero) by (apply not_eq_sym, (f_lt_neq SC OF), J_pos, Hlt).
    assert (HJh : J (pop_edge g e) <> zero) by (apply not_eq_sym, (f_lt_neq SC OF), J_pos; lia).
    assert (Ho : om (pop_edge g e) <> zero) by (apply not_eq_sym, (f_lt_neq SC OF), om_pos_sub; assumption).
    pose proof (of_field SC OF) as Fth.
    rewrite !(f_div_def SC OF).
    (* (Jh * /Jg * /oh) * (cp * /Jh) = (/oh * cp) * /Jg *)
    field. repeat split; assumption.
Qed.

End WithTable.
End TableField.
