(* Proofs/Bounds.v -- C02: the arithmetic of "a positive polynomial is within constants of its
   largest monomial", and the resulting interval for the returned ratio (over R). *)
From Coq Require Import Reals Lra Lia List.
From MT Require Import Proofs.RealProofs.
Import ListNotations.
Local Open Scope R_scope.

Fixpoint rsum (l : list R) : R := match l with [] => 0 | x :: l' => x + rsum l' end.

(* max <= sum <= n * max for non-negative terms *)
Lemma max_le_sum (l : list R) (m : R) :
  (forall y, In y l -> 0 <= y) -> In m l -> m <= rsum l.
Proof.
  induction l as [|x l IH]; intros Hpos Hin; [destruct Hin|].
  cbn [rsum]. destruct Hin as [->|Hin].
  - assert (0 <= rsum l).
    { clear IH. induction l as [|y l IHl]; cbn [rsum]; [lra|].
      assert (0 <= y) by (apply Hpos; right; left; reflexivity).
      assert (0 <= rsum l) by (apply IHl; intros z Hz; apply Hpos; destruct Hz as [->|Hz]; [left; reflexivity|right; right; exact Hz]).
      lra. }
    lra.
  - assert (0 <= x) by (apply Hpos; left; reflexivity).
    assert (m <= rsum l) by (apply IH; [intros y Hy; apply Hpos; right; exact Hy|exact Hin]).
    lra.
Qed.

Lemma sum_le_card_max (l : list R) (m : R) :
  (forall y, In y l -> y <= m) -> rsum l <= INR (length l) * m.
Proof.
  induction l as [|x l IH]; intros Hle; cbn [rsum length]; [simpl; lra|].
  rewrite S_INR. assert (x <= m) by (apply Hle; left; reflexivity).
  assert (rsum l <= INR (length l) * m) by (apply IH; intros y Hy; apply Hle; right; exact Hy).
  lra.
Qed.

(* weighted version: F = sum_j c_j m_j with c_j >= 0 ; cmin * max m_j <= F <= Csum * max m_j *)
Fixpoint wsum (l : list (R * R)) : R := match l with [] => 0 | (c, m) :: l' => c * m + wsum l' end.

Lemma wsum_upper (l : list (R * R)) (M : R) :
  (forall c m, In (c, m) l -> 0 <= c /\ 0 <= m <= M) -> wsum l <= rsum (map fst l) * M.
Proof.
  induction l as [|[c m] l IH]; intros H; cbn [wsum rsum map fst]; [lra|].
  destruct (H c m (or_introl eq_refl)) as [Hc [Hm0 HmM]].
  assert (wsum l <= rsum (map fst l) * M) by (apply IH; intros c' m' Hin; apply H; right; exact Hin).
  assert (c * m <= c * M) by (apply Rmult_le_compat_l; assumption).
  lra.
Qed.

Lemma wsum_lower (l : list (R * R)) (cmin M : R) :
  (forall c m, In (c, m) l -> cmin <= c /\ 0 <= m) -> 0 <= cmin -> (exists c, In (c, M) l) ->
  cmin * M <= wsum l.
Proof.
  intros H Hc [c0 Hin].
  assert (Hnn : forall l', (forall c m, In (c, m) l' -> cmin <= c /\ 0 <= m) -> 0 <= wsum l').
  { induction l' as [|[c m] l' IH']; intros H'; cbn [wsum]; [lra|].
    destruct (H' c m (or_introl eq_refl)) as [H1 H2].
    assert (0 <= wsum l') by (apply IH'; intros c' m' Hi; apply H'; right; exact Hi).
    assert (0 <= c * m) by (apply Rmult_le_pos; lra). lra. }
  induction l as [|[c m] l IH]; [destruct Hin|]. cbn [wsum].
  destruct Hin as [Heq|Hin].
  - inversion Heq; subst c m. destruct (H c0 M (or_introl eq_refl)) as [H1 H2].
    assert (0 <= wsum l) by (apply Hnn; intros c' m' Hi; apply H; right; exact Hi).
    assert (cmin * M <= c0 * M) by (apply Rmult_le_compat_r; assumption). lra.
  - destruct (H c m (or_introl eq_refl)) as [H1 H2].
    assert (cmin * M <= wsum l) by (apply IH; [intros c' m' Hi; apply H; right; exact Hi|exact Hin]).
    assert (0 <= c * m) by (apply Rmult_le_pos; lra). lra.
Qed.

(* monotonicity of x^y in x for y >= 0 *)
Lemma Rpower_le_mono x1 x2 y : 0 < x1 -> x1 <= x2 -> 0 <= y -> Rpower x1 y <= Rpower x2 y.
Proof.
  intros H1 H12 Hy. destruct Hy as [Hy|<-].
  - destruct H12 as [H12|<-]; [left; apply Rlt_Rpower_l; lra|right; reflexivity].
  - rewrite !Rpower_O by lra. lra.
Qed.

(* C02: the interval for the returned ratio *)
Theorem ratio_interval (U V Ut Vt NT cmin Csum a w : R) :
  0 < Ut -> 0 < Vt -> 0 < cmin -> 0 < Csum -> 1 <= NT -> 0 <= a -> 0 <= w ->
  Ut <= U <= NT * Ut ->
  cmin / NT * Vt <= V <= Csum * Vt ->
  Rpower NT (- a) * Rpower Csum (- w) <= Rpower (Ut / U) a * Rpower (Vt / V) w <= Rpower (NT / cmin) w.
Proof.
  intros HUt HVt Hc HC HN Ha Hw [HU1 HU2] [HV1 HV2].
  assert (HU : 0 < U) by lra.
  assert (HV : 0 < V).
  { apply Rlt_le_trans with (cmin / NT * Vt); [|exact HV1].
    apply Rmult_lt_0_compat; [apply Rdiv_lt_0_compat; lra|exact HVt]. }
  assert (E1 : / NT <= Ut / U <= 1).
  { split.
    - apply Rmult_le_reg_r with (NT * U); [apply Rmult_lt_0_compat; lra|]. field_simplify; lra.
    - apply Rmult_le_reg_r with U; [exact HU|]. field_simplify; lra. }
  assert (E2 : / Csum <= Vt / V <= NT / cmin).
  { split.
    - apply Rmult_le_reg_r with (Csum * V); [apply Rmult_lt_0_compat; lra|]. field_simplify; lra.
    - apply Rmult_le_reg_r with (V * cmin); [apply Rmult_lt_0_compat; lra|].
      assert (cmin * Vt <= NT * V).
      { apply Rmult_le_reg_r with (/ NT); [apply Rinv_0_lt_compat; lra|].
        replace (NT * V * / NT) with V by (field; lra). unfold Rdiv in HV1. lra. }
      field_simplify; lra. }
  assert (P1 : 0 < / NT) by (apply Rinv_0_lt_compat; lra).
  assert (P2 : 0 < / Csum) by (apply Rinv_0_lt_compat; lra).
  assert (P3 : 0 < Ut / U) by (apply Rdiv_lt_0_compat; assumption).
  assert (P4 : 0 < Vt / V) by (apply Rdiv_lt_0_compat; assumption).
  split.
  - replace (Rpower NT (- a)) with (Rpower (/ NT) a)
      by (unfold Rpower; rewrite ln_Rinv by lra; f_equal; ring).
    replace (Rpower Csum (- w)) with (Rpower (/ Csum) w)
      by (unfold Rpower; rewrite ln_Rinv by lra; f_equal; ring).
    apply Rmult_le_compat; try (left; apply Rpower_pos).
    + apply Rpower_le_mono; lra.
    + apply Rpower_le_mono; lra.
  - replace (Rpower (NT / cmin) w) with (1 * Rpower (NT / cmin) w) by ring.
    apply Rmult_le_compat; try (left; apply Rpower_pos).
    + replace 1 with (Rpower 1 a) by apply Rpower_1_l || (unfold Rpower; rewrite ln_1, Rmult_0_r; apply exp_0).
      apply Rpower_le_mono; lra.
    + apply Rpower_le_mono; lra.
Qed.
