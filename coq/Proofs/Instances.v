(* Proofs/Instances.v -- exact instances of the scalar interface: canonical
   rationals [Qc] (computable: used by the Examples) and the Coq reals [R]
   (carrier of the real-analysis theorems).  Both are proved to be ordered
   fields in the sense of Proofs/OrdField.v, so the exact-field theorems are
   not vacuous. *)
From Coq Require Import ZArith QArith Qcanon List Bool Lia Field Reals Lra.
From MT Require Import Model.Scalar Proofs.OrdField.
Import ListNotations.

(* ---------- Qc ---------- *)
Definition Qc_ltb (x y : Qc) : bool := match (x ?= y)%Qc with Lt => true | _ => false end.
Definition Qc_leb (x y : Qc) : bool := match (x ?= y)%Qc with Gt => false | _ => true end.
Definition Qc_eqb (x y : Qc) : bool := match (x ?= y)%Qc with Eq => true | _ => false end.

(* transcendental slots are placeholders: no exact-field theorem mentions them *)
Definition QcS : Scalar Qc Qc := {|
  s_add := Qcplus; s_sub := Qcminus; s_mul := Qcmult; s_div := Qcdiv;
  s_neg := Qcopp; s_inv := Qcinv; s_abs := fun x => if Qc_ltb x (Q2Qc 0) then Qcopp x else x;
  s_sqrt := fun x => x; s_ln := fun x => x; s_exp := fun x => x; s_cos := fun x => x; s_sin := fun x => x;
  s_powf := fun x _ => x;
  s_zero := Q2Qc 0; s_one := Q2Qc 1; s_pi := Q2Qc 3;
  s_of_Z := fun z => Q2Qc (inject_Z z);
  s_of_c := fun x => x; s_to_c := fun x => x;
  s_eqb := Qc_eqb; s_ltb := Qc_ltb; s_leb := Qc_leb |}.

Lemma Qc_ltb_iff x y : Qc_ltb x y = true <-> (x < y)%Qc.
Proof.
  unfold Qc_ltb. rewrite Qclt_alt.
  destruct (x ?= y)%Qc; split; intros H'; try discriminate; try reflexivity.
Qed.

Lemma Qc_leb_iff x y : Qc_leb x y = true <-> (x <= y)%Qc.
Proof.
  unfold Qc_leb. rewrite Qcle_alt.
  destruct (x ?= y)%Qc; split; intros H'; try discriminate; try reflexivity; congruence.
Qed.

Lemma Qc_eqb_iff x y : Qc_eqb x y = true <-> x = y.
Proof.
  unfold Qc_eqb. rewrite Qceq_alt.
  destruct (x ?= y)%Qc; split; intros H'; try discriminate; try reflexivity.
Qed.

Lemma QcS_ordfield : OrdField QcS.
Proof.
  constructor; unfold flt, fle; cbn [QcS s_ltb s_leb s_eqb s_add s_mul s_zero s_one s_of_Z s_neg].
  - exact Qcft.
  - intros x H. apply Qc_ltb_iff in H. exact (Qclt_not_eq _ _ H eq_refl).
  - intros x y z. rewrite !Qc_ltb_iff. apply Qclt_trans.
  - intros x y. rewrite !Qc_ltb_iff.
    destruct (Qc_dec x y) as [[H|H]|H]; auto.
  - intros x y. rewrite Qc_leb_iff, Qc_ltb_iff. split.
    + intros H. apply Qcle_lt_or_eq in H. exact H.
    + intros [H| ->]; [apply Qclt_le_weak, H|apply Qcle_refl].
  - intros x y z. rewrite !Qc_ltb_iff. intros H.
    unfold Qclt in *. unfold Qcplus, Q2Qc. cbn [this]. rewrite !Qred_correct. apply Qplus_lt_l. exact H.
  - intros x y. rewrite !Qc_ltb_iff. intros Hx Hy.
    pose proof (Qcmult_lt_compat_r (Q2Qc 0) x y Hy Hx) as H. rewrite Qcmult_0_l in H. exact H.
  - exact Qc_eqb_iff.
  - reflexivity.
  - intros n Hn. apply Qc_is_canon. unfold Qcplus, Q2Qc. cbn [this]. rewrite !Qred_correct.
    rewrite inject_Z_plus. reflexivity.
  - intros n. apply Qc_is_canon. unfold Qcopp, Q2Qc. cbn [this]. rewrite !Qred_correct.
    rewrite inject_Z_opp. reflexivity.
Qed.

(* ---------- R ---------- *)
Open Scope R_scope.
Definition R_ltb (x y : R) : bool := if Rlt_dec x y then true else false.
Definition R_leb (x y : R) : bool := if Rle_dec x y then true else false.
Definition R_eqb (x y : R) : bool := if Req_EM_T x y then true else false.

Definition RS : Scalar R R := {|
  s_add := Rplus; s_sub := Rminus; s_mul := Rmult; s_div := Rdiv;
  s_neg := Ropp; s_inv := Rinv; s_abs := Rabs;
  s_sqrt := sqrt; s_ln := ln; s_exp := exp; s_cos := cos; s_sin := sin;
  s_powf := Rpower;
  s_zero := 0; s_one := 1; s_pi := PI;
  s_of_Z := IZR;
  s_of_c := fun x => x; s_to_c := fun x => x;
  s_eqb := R_eqb; s_ltb := R_ltb; s_leb := R_leb |}.

Lemma R_ltb_iff x y : R_ltb x y = true <-> x < y.
Proof. unfold R_ltb. destruct (Rlt_dec x y); split; intros; try discriminate; auto; contradiction. Qed.
Lemma R_leb_iff x y : R_leb x y = true <-> x <= y.
Proof. unfold R_leb. destruct (Rle_dec x y); split; intros; try discriminate; auto; contradiction. Qed.
Lemma R_eqb_iff x y : R_eqb x y = true <-> x = y.
Proof. unfold R_eqb. destruct (Req_EM_T x y); split; intros; try discriminate; auto; contradiction. Qed.

Lemma RS_ordfield : OrdField RS.
Proof.
  constructor; unfold flt, fle; cbn [RS s_ltb s_leb s_eqb s_add s_mul s_zero s_one s_of_Z s_neg].
  - exact Rfield.
  - intros x H. apply R_ltb_iff in H. lra.
  - intros x y z. rewrite !R_ltb_iff. lra.
  - intros x y. rewrite !R_ltb_iff. lra.
  - intros x y. rewrite R_leb_iff, R_ltb_iff. lra.
  - intros x y z. rewrite !R_ltb_iff. lra.
  - intros x y. rewrite !R_ltb_iff. apply Rmult_lt_0_compat.
  - exact R_eqb_iff.
  - reflexivity.
  - intros n Hn. rewrite plus_IZR. reflexivity.
  - intros n. rewrite opp_IZR. reflexivity.
Qed.
