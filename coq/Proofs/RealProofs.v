(* Proofs/RealProofs.v -- the real-analysis identities behind the rescaling (C07), the
   jacobian in the rescaled gauge (C11) and the weight-times-density identity (C01).
   Carrier: Coq's R with Rpower (x^y = exp (y ln x) for x > 0). *)
From Coq Require Import Reals Lra Lia.
Local Open Scope R_scope.

Lemma Rpower_pos x y : 0 < Rpower x y.
Proof. unfold Rpower. apply exp_pos. Qed.

Lemma ln_Rpower x y : ln (Rpower x y) = y * ln x.
Proof. unfold Rpower. apply ln_exp. Qed.

(* two positive reals with equal logarithms are equal *)
Lemma eq_by_ln x y : 0 < x -> 0 < y -> ln x = ln y -> x = y.
Proof. intros Hx Hy H. apply ln_inv; assumption. Qed.

Lemma ln_pow x n : 0 < x -> ln (x ^ n) = INR n * ln x.
Proof.
  intros Hx. induction n as [|n IH].
  - simpl. rewrite ln_1. ring.
  - rewrite <- tech_pow_Rmult. rewrite ln_mult; [|exact Hx|apply pow_lt; exact Hx].
    rewrite IH, S_INR. ring.
Qed.

(* C07: the common rescaling normalises U_tr^(D/2) V_tr^omega to 1.
   a = D/2, w = omega (overall degree of divergence), c = a*L + w <> 0,
   target = u^(-a) * (u/(u*v))^w, s = target^(1/c); rescaled U_tr = s^L u, V_tr = s v. *)
Theorem rescaling_normalises (u v a w : R) (L : nat) :
  0 < u -> 0 < v -> a * INR L + w <> 0 ->
  let target := Rpower u (- a) * Rpower (u / (u * v)) w in
  let s := Rpower target (/ (a * INR L + w)) in
  Rpower (s ^ L * u) a * Rpower (s * v) w = 1.
Proof.
  intros Hu Hv Hc target s.
  assert (Hs : 0 < s) by apply Rpower_pos.
  assert (HsL : 0 < s ^ L) by (apply pow_lt; exact Hs).
  assert (Hq : 0 < u / (u * v)) by (apply Rdiv_lt_0_compat; [exact Hu|apply Rmult_lt_0_compat; assumption]).
  assert (Ht : 0 < target) by (apply Rmult_lt_0_compat; apply Rpower_pos).
  apply eq_by_ln; [apply Rmult_lt_0_compat; apply Rpower_pos|lra|].
  rewrite ln_1, ln_mult by apply Rpower_pos. rewrite !ln_Rpower.
  rewrite ln_mult by assumption. rewrite (ln_mult s v) by assumption. rewrite ln_pow by exact Hs.
  unfold s at 1 2. rewrite ln_Rpower. unfold target. rewrite ln_mult by apply Rpower_pos.
  rewrite !ln_Rpower. unfold Rdiv. rewrite ln_mult; [|exact Hu|apply Rinv_0_lt_compat, Rmult_lt_0_compat; assumption].
  rewrite ln_Rinv by (apply Rmult_lt_0_compat; assumption). rewrite ln_mult by assumption.
  field. exact Hc.
Qed.

(* C11: the value of the weight is invariant under the internal rescaling.
   With U(s x) = s^L U(x), V(s x) = s V(x) (homogeneity) and the normalisation above,
   (U_tr/U)^a (V_tr/V)^w at the unrescaled parameters = (1/U(sx))^a (1/V(sx))^w. *)
Theorem jacobian_rescaling_invariant (U V ut vt s a w : R) (L : nat) :
  0 < U -> 0 < V -> 0 < ut -> 0 < vt -> 0 < s ->
  Rpower (s ^ L * ut) a * Rpower (s * vt) w = 1 ->
  Rpower (ut / U) a * Rpower (vt / V) w = Rpower (1 / (s ^ L * U)) a * Rpower (1 / (s * V)) w.
Proof.
  intros HU HV Hut Hvt Hs Hn.
  assert (HsL : 0 < s ^ L) by (apply pow_lt; exact Hs).
  assert (Hln : a * (INR L * ln s + ln ut) + w * (ln s + ln vt) = 0).
  { apply (f_equal ln) in Hn. rewrite ln_1, ln_mult in Hn by apply Rpower_pos.
    rewrite !ln_Rpower in Hn. rewrite ln_mult in Hn by assumption. rewrite (ln_mult s vt) in Hn by assumption.
    rewrite ln_pow in Hn by exact Hs. exact Hn. }
  apply eq_by_ln; try (apply Rmult_lt_0_compat; apply Rpower_pos).
  rewrite !ln_mult by apply Rpower_pos. rewrite !ln_Rpower. unfold Rdiv.
  rewrite !ln_mult; try assumption; try (apply Rinv_0_lt_compat; assumption); try lra;
    try (apply Rinv_0_lt_compat, Rmult_lt_0_compat; assumption).
  rewrite !ln_Rinv; try assumption; try (apply Rmult_lt_0_compat; assumption).
  rewrite !ln_mult by assumption. rewrite ln_pow by exact Hs. rewrite ln_1. lra.
Qed.

(* C01 (T2): the exponents match: omega + D*L/2 = sum of the weights, for the dod that
   from_graph computes *)
Lemma exponents_match (sum_w halfDL : R) : (sum_w - halfDL) + halfDL = sum_w.
Proof. ring. Qed.

(* C01 (T3, pointwise): weight x proposal density of (lambda, q) x Jacobian of the momentum map
   x dlambda/dt = (I_tr / prod Gamma(nu)) x Schwinger integrand t^(S-1) exp(-t A) at t = lambda/V.
   a = D/2, w = omega, S = w + a L = sum of the weights (T2), A = sum_e x_e (|q_e|^2 + m_e^2)
   = V (1 + Q2/(2 lambda)) (T1, the energy identity, Q2 = |q|^2); G_w = Gamma(omega),
   PG = prod Gamma(nu_e) are arbitrary positive numbers (they cancel). *)
Theorem weight_times_density (Itr Gw PG U V lam Q2 a w : R) (L : nat) :
  0 < Itr -> 0 < Gw -> 0 < PG -> 0 < U -> 0 < V -> 0 < lam ->
  let C := Itr * Gw / PG * Rpower PI (a * INR L) in
  let jac := Rpower (1 / U) a * Rpower (1 / V) w * C in
  let gamma_density := Rpower lam (w - 1) * exp (- lam) / Gw in
  let gauss_density := Rpower (2 * PI) (- (a * INR L)) * exp (- Q2 / 2) in
  let map_jacobian := Rpower (2 * lam / V) (a * INR L) * Rpower U a in
  let A := V * (1 + Q2 / (2 * lam)) in
  let t := lam / V in
  jac * gamma_density * gauss_density * map_jacobian * V =
  Itr / PG * (Rpower t (w + a * INR L - 1) * exp (- (t * A))).
Proof.
  intros HI HG HP HU HV Hl C jac gd gs mj A t.
  assert (Hpi : 0 < PI) by apply PI_RGT_0.
  assert (Ht : 0 < t) by (apply Rdiv_lt_0_compat; assumption).
  assert (H2l : 0 < 2 * lam / V) by (apply Rdiv_lt_0_compat; lra).
  assert (HtA : t * A = lam + Q2 / 2) by (unfold t, A; field; lra).
  apply eq_by_ln.
  - unfold jac, gd, gs, mj, C.
    repeat apply Rmult_lt_0_compat; try apply Rpower_pos; try apply exp_pos; try assumption;
      try (apply Rinv_0_lt_compat; assumption).
  - repeat apply Rmult_lt_0_compat; try apply Rpower_pos; try apply exp_pos; try assumption;
      try (apply Rinv_0_lt_compat; assumption).
  - unfold jac, gd, gs, mj, C, Rdiv.
    repeat (rewrite ln_mult; [|repeat apply Rmult_lt_0_compat; try apply Rpower_pos; try apply exp_pos;
                                 try assumption; try (apply Rinv_0_lt_compat; assumption); try lra..]).
    rewrite !ln_Rpower, !ln_exp, !ln_Rinv by (try assumption; lra).
    rewrite (ln_mult 1 (/ U)), (ln_mult 1 (/ V)), ln_1, !ln_Rinv by (try lra; try (apply Rinv_0_lt_compat; assumption); assumption).
    rewrite (ln_mult 2 PI), (ln_mult (2 * lam)), (ln_mult 2 lam), ln_Rinv by (try lra; try (apply Rinv_0_lt_compat; assumption); assumption).
    fold (Rdiv lam V). fold t. rewrite HtA. unfold t, Rdiv. rewrite ln_mult, ln_Rinv by (try assumption; apply Rinv_0_lt_compat; assumption).
    field.
Qed.
