(* Proofs/Euler.v -- C03: the model's [loop_number] is the cyclomatic number
   |S| - |V(S)| + (number of connected components) of the edge subset S. *)
From Coq Require Import ZArith NArith List Bool Lia Arith Permutation Relations.
From MT Require Import Model.Scalar Model.Graph Proofs.Components.
Import ListNotations.
Local Open Scope nat_scope.

Section Euler.
Context {C : Type}.
Notation ie := (ie C).

(* ---------- Nmem / Nnodup ---------- *)
Lemma Nmem_iff v l : Nmem v l = true <-> In v l.
Proof.
  unfold Nmem. rewrite existsb_exists. split.
  - intros [x [Hx He]]. apply N.eqb_eq in He. subst. exact Hx.
  - intros H. exists v. split; [exact H|apply N.eqb_refl].
Qed.

Lemma Nmem_app v l1 l2 : Nmem v (l1 ++ l2) = Nmem v l1 || Nmem v l2.
Proof. unfold Nmem. apply existsb_app. Qed.

Lemma Nnodup_In v l : In v (Nnodup l) <-> In v l.
Proof.
  induction l as [|a l IH]; cbn [Nnodup]; [tauto|].
  destruct (Nmem a l) eqn:Hm.
  - rewrite IH. cbn [In]. split; [auto|]. intros [<-|H]; [apply Nmem_iff, Hm|exact H].
  - cbn [In]. rewrite IH. tauto.
Qed.

Lemma Nnodup_NoDup l : NoDup (Nnodup l).
Proof.
  induction l as [|a l IH]; cbn [Nnodup]; [constructor|].
  destruct (Nmem a l) eqn:Hm; [exact IH|].
  constructor; [|exact IH]. rewrite Nnodup_In. intros H. apply Nmem_iff in H. congruence.
Qed.

Lemma Nnodup_length_le l l' : incl l l' -> length (Nnodup l) <= length l'.
Proof.
  intros Hi. apply NoDup_incl_length; [apply Nnodup_NoDup|].
  intros x Hx. apply Hi. apply Nnodup_In, Hx.
Qed.

Lemma Nnodup_length_ext l l' : (forall x, In x l <-> In x l') -> length (Nnodup l) = length (Nnodup l').
Proof.
  intros H. apply Permutation_length. apply NoDup_Permutation; try apply Nnodup_NoDup.
  intros x. rewrite !Nnodup_In. apply H.
Qed.

Lemma Nnodup_length_app l1 l2 : (forall x, In x l1 -> ~ In x l2) ->
  length (Nnodup (l1 ++ l2)) = length (Nnodup l1) + length (Nnodup l2).
Proof.
  induction l1 as [|a l1 IH]; intros Hd; [reflexivity|].
  cbn [app Nnodup]. rewrite Nmem_app.
  assert (Ha : Nmem a l2 = false).
  { destruct (Nmem a l2) eqn:Hm; [|reflexivity]. exfalso. apply (Hd a); [left; reflexivity|apply Nmem_iff, Hm]. }
  rewrite Ha, orb_false_r.
  assert (IH' := IH (fun x Hx => Hd x (or_intror Hx))).
  destruct (Nmem a l1); cbn [length]; lia.
Qed.

(* ---------- vertex lists ---------- *)
Definition vset (c : list ie) : list N := flat_map (fun p => [e_left (snd p); e_right (snd p)]) c.

Lemma verts_eq c : verts c = Nnodup (vset c).
Proof. reflexivity. Qed.

Lemma vset_app c1 c2 : vset (c1 ++ c2) = vset c1 ++ vset c2.
Proof. unfold vset. apply flat_map_app. Qed.

Lemma vset_In v c : In v (vset c) <-> exists p, In p c /\ contains_vertex (snd p) v = true.
Proof.
  unfold vset. rewrite in_flat_map. split.
  - intros [p [Hp Hv]]. exists p. split; [exact Hp|]. apply contains_vertex_iff.
    cbn [In] in Hv. destruct Hv as [H|[H|[]]]; auto.
  - intros [p [Hp Hv]]. exists p. split; [exact Hp|]. apply contains_vertex_iff in Hv.
    cbn [In]. destruct Hv as [H|H]; auto.
Qed.

(* an edge adjacent to a set has an endpoint among the set's vertices *)
Lemma adj_endpoint (cur : list ie) (f : ie) : adj_to cur f = true ->
  In (e_left (snd f)) (vset cur) \/ In (e_right (snd f)) (vset cur).
Proof.
  intros H. apply adj_to_iff in H. destruct H as [e [He Hn]].
  unfold nb, neighbours in Hn. apply orb_true_iff in Hn. destruct Hn as [Hn|Hn].
  - left. apply vset_In. exists e. split; assumption.
  - right. apply vset_In. exists e. split; assumption.
Qed.

(* two edges sharing a vertex are neighbours *)
Lemma share_vertex_nb (x y : ie) v :
  contains_vertex (snd x) v = true -> contains_vertex (snd y) v = true -> nb x y = true.
Proof.
  intros Hx Hy. unfold nb. apply neighbours_iff.
  apply contains_vertex_iff in Hx. apply contains_vertex_iff in Hy.
  destruct Hx as [Hx|Hx], Hy as [Hy|Hy]; subst; auto.
Qed.

(* ---------- a grown component has at most edges + 1 vertices ---------- *)
Definition other (cur : list ie) (f : ie) : N :=
  if Nmem (e_left (snd f)) (vset cur) then e_right (snd f) else e_left (snd f).

Lemma layer_verts (cur inn : list ie) : (forall f, In f inn -> adj_to cur f = true) ->
  length (verts (cur ++ inn)) <= length (verts cur) + length inn.
Proof.
  intros Hadj. rewrite !verts_eq.
  replace (length (Nnodup (vset cur)) + length inn) with (length (Nnodup (vset cur) ++ map (other cur) inn))
    by (rewrite app_length, map_length; reflexivity).
  apply Nnodup_length_le. intros v Hv. rewrite vset_app in Hv. apply in_app_or in Hv.
  apply in_or_app. destruct Hv as [Hv|Hv]; [left; apply Nnodup_In, Hv|].
  apply vset_In in Hv. destruct Hv as [f [Hf Hc]]. apply contains_vertex_iff in Hc.
  pose proof (adj_endpoint cur f (Hadj f Hf)) as He.
  unfold other.
  destruct (Nmem (e_left (snd f)) (vset cur)) eqn:Hm.
  - apply Nmem_iff in Hm. destruct Hc as [Hc|Hc]; subst v.
    + left. apply Nnodup_In, Hm.
    + right. apply in_map_iff. exists f. split; [|exact Hf]. unfold other.
      apply Nmem_iff in Hm. rewrite Hm. reflexivity.
  - assert (Hr : In (e_right (snd f)) (vset cur)).
    { destruct He as [He|He]; [apply Nmem_iff in He; congruence|exact He]. }
    destruct Hc as [Hc|Hc]; subst v.
    + right. apply in_map_iff. exists f. split; [|exact Hf]. unfold other. rewrite Hm. reflexivity.
    + left. apply Nnodup_In, Hr.
Qed.

Lemma grow_verts fuel (cur rest c rest' : list ie) :
  grow fuel cur rest = (c, rest') ->
  length (verts cur) <= length cur + 1 -> length (verts c) <= length c + 1.
Proof.
  revert cur rest; induction fuel as [|fuel IH]; intros cur rest Hg Hv; cbn [grow] in Hg.
  - inversion Hg; subst. exact Hv.
  - destruct (partition (fun f => existsb (fun e => nb e f) cur) rest) as [inn out] eqn:Hp.
    destruct (partition_spec _ _ _ _ Hp) as [Hin _].
    destruct inn as [|i0 inn'].
    + inversion Hg; subst. exact Hv.
    + apply (IH _ _ Hg).
      assert (Hl := layer_verts cur (i0 :: inn') (fun f Hf => proj2 (proj1 (Hin f) Hf))).
      rewrite app_length. lia.
Qed.

Lemma comps_verts fuel (todo : list ie) c : In c (comps fuel todo) -> length (verts c) <= length c + 1.
Proof.
  revert todo; induction fuel as [|fuel IH]; intros todo Hc; [destruct todo; destruct Hc|].
  destruct todo as [|e rest]; [destruct Hc|].
  cbn [comps] in Hc. destruct (grow (length rest) [e] rest) as [cc rest'] eqn:Hg.
  destruct Hc as [<-|Hc]; [|apply (IH rest' Hc)].
  apply (grow_verts _ _ _ _ _ Hg).
  rewrite verts_eq. cbn [length]. apply (Nat.le_trans _ (length (vset [e]))); [|cbn; lia].
  apply Nnodup_length_le, incl_refl.
Qed.

Lemma list_sum_cons a l : list_sum (a :: l) = a + list_sum l.
Proof. reflexivity. Qed.

(* ---------- vertices of separated components are disjoint ---------- *)
Lemma separated_verts (cs : list (list ie)) : separated cs ->
  length (verts (concat cs)) = list_sum (map (fun c => length (verts c)) cs).
Proof.
  induction cs as [|c cs IH]; intros Hs; [reflexivity|].
  cbn [separated] in Hs. destruct Hs as [Hs1 Hs2].
  cbn [concat map]. rewrite list_sum_cons. rewrite <- (IH Hs2). rewrite !verts_eq, vset_app.
  apply Nnodup_length_app. intros v Hv1 Hv2.
  apply vset_In in Hv1. apply vset_In in Hv2.
  destruct Hv1 as [x [Hx Hxv]]. destruct Hv2 as [y [Hy Hyv]].
  specialize (Hs1 y Hy). apply not_true_iff_false in Hs1. apply Hs1.
  apply adj_to_iff. exists x. split; [exact Hx|]. apply (share_vertex_nb x y v); assumption.
Qed.

(* ---------- sums ---------- *)
Lemma fold_add_sum l a : fold_left Nat.add l a = a + list_sum l.
Proof. revert a; induction l as [|x l IH]; intros a; cbn [fold_left]; [cbn; lia|]. rewrite IH, list_sum_cons. lia. Qed.

Lemma length_concat_sum {A} (cs : list (list A)) : length (concat cs) = list_sum (map (@length A) cs).
Proof. induction cs as [|c cs IH]; [reflexivity|]. cbn [concat map]. rewrite list_sum_cons, app_length, IH. reflexivity. Qed.

Lemma euler_sum (cs : list (list ie)) :
  (forall c, In c cs -> length (verts c) <= length c + 1) ->
  list_sum (map loops_of_component cs) + list_sum (map (fun c => length (verts c)) cs)
  = list_sum (map (@length ie) cs) + length cs.
Proof.
  induction cs as [|c cs IH]; intros Hb; [reflexivity|].
  cbn [map length]. rewrite !list_sum_cons. specialize (IH (fun c0 H0 => Hb c0 (or_intror H0))).
  pose proof (Hb c (or_introl eq_refl)) as Hc. unfold loops_of_component at 1. lia.
Qed.

(* C03: the loop number is |S| - |V(S)| + number of components (written without subtraction) *)
Theorem loop_number_euler (S : list ie) :
  loop_number S + length (verts S) = length S + length (components S).
Proof.
  unfold loop_number. rewrite fold_add_sum. cbn [Nat.add].
  destruct (comps_spec (length S) S S (le_n _) (incl_refl S)) as [Hp [_ Hsep]]. cbv zeta in *.
  fold (components S) in *.
  assert (Hb : forall c, In c (components S) -> length (verts c) <= length c + 1)
    by (intros c Hc; apply (comps_verts _ _ _ Hc)).
  rewrite <- (Permutation_length Hp) at 1. rewrite length_concat_sum.
  rewrite <- (euler_sum _ Hb). f_equal.
  rewrite <- (separated_verts _ Hsep). rewrite !verts_eq.
  apply Nnodup_length_ext. intros v. rewrite !vset_In.
  split; intros [p [Hp1 Hp2]]; exists p; (split; [|exact Hp2]).
  - apply (Permutation_in p (Permutation_sym Hp)), Hp1.
  - apply (Permutation_in p Hp), Hp1.
Qed.

End Euler.
