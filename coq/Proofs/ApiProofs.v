(* Proofs/ApiProofs.v -- the state-machine theorems of C17. *)
From Coq Require Import ZArith NArith List Bool Lia.
From MT Require Import Model.Scalar Model.Graph Model.Table Model.Matrix Model.Sampling Model.Api.
Import ListNotations.

Section Api.
Context {C T : Type} (SC : Scalar C C) (S : Scalar C T).
Variable igam_impl : C -> C -> nat -> C -> res C.
Variable c_is_value : C -> bool.
Variable D : nat.

Notation run := (run SC S igam_impl c_is_value D).
Notation answer := (answer SC S igam_impl c_is_value D).
Notation from_point := (from_point SC S igam_impl c_is_value D).
Notation from_rng := (from_rng SC S igam_impl c_is_value D).

Lemma run_spec s ops : run s ops = (s, map (answer s) ops).
Proof.
  induction ops as [|o ops IH]; [reflexivity|].
  cbn [Api.run step map]. rewrite IH. reflexivity.
Qed.

(* every operation of a history is answered as if it were the only one *)
Lemma run_nth s ops i o : nth_error ops i = Some o ->
  nth_error (snd (run s ops)) i = Some (answer s o).
Proof.
  intros H. rewrite run_spec. cbn [snd]. rewrite nth_error_map, H. reflexivity.
Qed.

(* interleavings of two per-thread histories *)
Inductive interleave {A} : list A -> list A -> list A -> Prop :=
| il_nil : interleave [] [] []
| il_left a l1 l2 l : interleave l1 l2 l -> interleave (a :: l1) l2 (a :: l)
| il_right a l1 l2 l : interleave l1 l2 l -> interleave l1 (a :: l2) (a :: l).

Lemma interleave_in {A} (l1 l2 l : list A) x : interleave l1 l2 l -> In x l -> In x l1 \/ In x l2.
Proof.
  induction 1 as [|a l1 l2 l H IH|a l1 l2 l H IH]; intros Hin.
  - destruct Hin.
  - destruct Hin as [<-|Hin]; [left; left; reflexivity|].
    destruct (IH Hin); [left; right; assumption|right; assumption].
  - destruct Hin as [<-|Hin]; [right; left; reflexivity|].
    destruct (IH Hin); [left; assumption|right; right; assumption].
Qed.

(* whatever the schedule, the sampler is unchanged and each operation gets the answer it
   gets when run alone on the initial sampler *)
Lemma run_interleaved s h1 h2 sched : interleave h1 h2 sched ->
  fst (run s sched) = s /\
  forall i o, nth_error sched i = Some o ->
    nth_error (snd (run s sched)) i = Some (answer s o) /\
    snd (run s [o]) = [answer s o].
Proof.
  intros _. rewrite run_spec. split; [reflexivity|].
  intros i o H. cbn [snd]. rewrite nth_error_map, H. split; reflexivity.
Qed.

(* generate_sample_from_rng consumes exactly get_dimension() draws, in order, and returns what
   generate_sample_from_x_space_point returns on them *)
Lemma from_rng_spec s draws ed st n :
  ed <> [] -> get_dimension s = Ok n -> n <= length draws ->
  from_rng s draws ed st = (from_point s (map (s_of_c S) (firstn n draws)) ed st, skipn n draws) /\
  length (skipn n draws) = length draws - n.
Proof.
  intros Hed Hn Hlen. unfold Api.from_rng. destruct ed as [|e ed']; [congruence|].
  rewrite Hn.
  destruct (Nat.ltb_spec (length draws) n); [lia|]. split; [reflexivity|apply skipn_length].
Qed.

End Api.

(* return_metadata and print_debug_info do not change the numerical result *)
Section Flags.
Context {C T : Type} (SC : Scalar C C) (S : Scalar C T).
Variable igam_impl : C -> C -> nat -> C -> res C.
Variable c_is_value : C -> bool.

Lemma sample_flags (t : table C) (D : nat) (x : list T) (sig : list (list Z)) (ed : list (option T * list T))
      (stab : option C) (d1 d2 m1 m2 : bool) :
  numeric (sample SC S igam_impl c_is_value t D x sig ed (mkSettings stab d1 m1)) =
  numeric (sample SC S igam_impl c_is_value t D x sig ed (mkSettings stab d2 m2)).
Proof.
  unfold sample. cbn [set_stability set_metadata set_debug].
  destruct (negb (well_formed_input t D sig ed)); [reflexivity|].
  destruct x as [|x0 x']; [reflexivity|].
  destruct (permatuhedral_sampling SC S t (mkRng (x0 :: x') 0)) as [sec|w]; [|reflexivity].
  cbn [rbind].
  destruct (decompose_for_tropical S (tg_loops (tb_graph t)) _ stab) as [[e|dc]|w]; [reflexivity| |reflexivity].
  cbn [rbind].
  destruct (rng_next (sec_rng sec)) as [pr|w]; [|reflexivity]. cbn [rbind].
  destruct (inverse_gamma_lr S igam_impl c_is_value _ (fst pr) 50 _) as [[lambda|]|w]; [|reflexivity|reflexivity].
  cbn [rbind].
  destruct (sample_q_vectors S (snd pr) (tb_dim t) (tg_loops (tb_graph t))) as [qr|w]; [|reflexivity].
  cbn [rbind numeric sr_momenta sr_utrop sr_vtrop sr_u sr_v sr_jacobian]. reflexivity.
Qed.

Lemma sample_metadata_flag (t : table C) (D : nat) (x : list T) (sig : list (list Z)) (ed : list (option T * list T))
      (stab : option C) (d m : bool) b :
  has_metadata (sample SC S igam_impl c_is_value t D x sig ed (mkSettings stab d m)) = Some b -> b = m.
Proof.
  unfold sample. cbn [set_stability set_metadata set_debug].
  destruct (negb (well_formed_input t D sig ed)); [discriminate|].
  destruct x as [|x0 x']; [discriminate|].
  destruct (permatuhedral_sampling SC S t (mkRng (x0 :: x') 0)) as [sec|w]; [|discriminate].
  cbn [rbind].
  destruct (decompose_for_tropical S (tg_loops (tb_graph t)) _ stab) as [[e|dc]|w]; [discriminate| |discriminate].
  cbn [rbind].
  destruct (rng_next (sec_rng sec)) as [pr|w]; [|discriminate]. cbn [rbind].
  destruct (inverse_gamma_lr S igam_impl c_is_value _ (fst pr) 50 _) as [[lambda|]|w]; [|discriminate|discriminate].
  cbn [rbind].
  destruct (sample_q_vectors S (snd pr) (tb_dim t) (tg_loops (tb_graph t))) as [qr|w]; [|discriminate].
  cbn [rbind has_metadata sr_meta]. destruct m; intros H; inversion H; reflexivity.
Qed.

End Flags.

(* several samplers in one process *)
Section PoolProofs.
Context {C T : Type} (SC : Scalar C C) (S : Scalar C T).
Variable igam_impl : C -> C -> nat -> C -> res C.
Variable c_is_value : C -> bool.

Lemma run_pool_spec (p : pool (C:=C)) (calls : list (nat * op (C:=C) (T:=T))) :
  run_pool SC S igam_impl c_is_value p calls =
  (p, map (fun ko => answer_pool SC S igam_impl c_is_value p (fst ko) (snd ko)) calls).
Proof.
  induction calls as [|[k o] rest IH]; [reflexivity|].
  cbn [run_pool map fst snd]. rewrite IH. reflexivity.
Qed.

(* whatever else the process does with this or any other sampler, before or after: the i-th call, made on sampler k,
   returns what that sampler returns for that operation alone *)
Lemma run_pool_nth (p : pool (C:=C)) (calls : list (nat * op (C:=C) (T:=T))) i k o d s :
  nth_error calls i = Some (k, o) -> nth_error p k = Some (d, s) ->
  fst (run_pool SC S igam_impl c_is_value p calls) = p /\
  nth_error (snd (run_pool SC S igam_impl c_is_value p calls)) i = Some (Some (answer SC S igam_impl c_is_value d s o)) /\
  snd (run SC S igam_impl c_is_value d s [o]) = [answer SC S igam_impl c_is_value d s o].
Proof.
  intros Hc Hp. rewrite run_pool_spec. cbn [fst snd]. split; [reflexivity|]. split.
  - rewrite nth_error_map, Hc. cbn [option_map fst snd]. unfold answer_pool. rewrite Hp. reflexivity.
  - reflexivity.
Qed.

End PoolProofs.
