(* Proofs/SampleAnatomy.v -- what a successful [sample] consists of: which coordinate
   feeds which stage, how many are read (C14, C12 dataflow), the formulas for u, v, the
   momenta and the jacobian in terms of the stage functions (C10, C11). *)
From Coq Require Import ZArith NArith List Bool Lia Arith.
From MT Require Import Model.Scalar Model.Graph Model.Table Model.Vector Model.Matrix Model.Sampling
  Proofs.TableProofs Proofs.SectorProofs Proofs.GaussProofs Proofs.SectorLoop.
Import ListNotations.
Local Open Scope nat_scope.

Section Anatomy.
Context {C T : Type} (SC : Scalar C C) (S : Scalar C T).
Variable igam_impl : C -> C -> nat -> C -> res C.
Variable c_is_value : C -> bool.
Variable d : T.

Lemma well_formed_facts (t : table C) D sig (ed : list (option T * list T)) : well_formed_input t D sig ed = true ->
  length sig = nedges t /\ length ed = nedges t /\ 0 < nedges t /\ tb_dim t = D /\ 0 < tg_loops (tb_graph t).
Proof.
  unfold well_formed_input. rewrite !andb_true_iff.
  intros [[[[[[H1 H2] H3] H4] _] _] H7].
  apply Nat.eqb_eq in H1, H2, H4. apply Nat.ltb_lt in H3, H7. repeat split; assumption.
Qed.

Theorem sample_anatomy t D pt sig ed st r :
  sample SC S igam_impl c_is_value t D pt sig ed st = Ok (inr r) ->
  let E := nedges t in
  let L := tg_loops (tb_graph t) in
  let reads := D * L + Nat.modulo (D * L) 2 in
  let dod := tg_dod (tb_graph t) in
  well_formed_input t D sig ed = true /\
  exists sec dc lam qs,
    permatuhedral_sampling SC S t (mkRng pt 0) = Ok sec /\
    sec_rng sec = mkRng pt (2 * E - 2) /\
    decompose_for_tropical S L (compute_l_matrix S (sec_x sec) sig L) (set_stability st) = Ok (inr dc) /\
    inverse_gamma_lr S igam_impl c_is_value (s_of_c S dod) (nth (2 * E - 2) pt d) 50 (s_of_c S (ofnat SC 5)) = Ok (Some lam) /\
    sample_q_vectors S (mkRng pt (2 * E - 1)) D L = Ok (qs, mkRng pt (2 * E - 1 + reads)) /\
    2 * E - 1 + reads <= length pt /\
    sr_reads r = 2 * E - 1 + reads /\ sr_sector r = sec /\
    let x := sec_x sec in
    let masses := map (fun md => match fst md with Some m => m | None => s_zero S end) ed in
    let shifts := map snd ed in
    let us := compute_u_vectors S D x sig L shifts in
    sr_u r = d_determinant dc /\
    sr_v r = compute_v_polynomial S x us L (d_inverse dc) shifts masses /\
    sr_momenta r = compute_loop_momenta S D (sr_v r) lam L (d_q_transposed_inverse dc) qs (d_inverse dc) us /\
    sr_utrop r = s_one S /\ sr_vtrop r = s_one S /\
    sr_jacobian r = s_mul S (s_mul S (s_powf S (s_div S (s_one S) (sr_u r)) (s_of_c S (halfD SC t)))
                                     (s_powf S (s_div S (s_one S) (sr_v r)) (s_of_c S dod)))
                            (s_of_c S (tb_factor t)) /\
    (forall md, sr_meta r = Some md ->
       md_q md = qs /\ md_lambda md = lam /\ md_l md = compute_l_matrix S x sig L /\ md_decomp md = dc /\
       md_u md = us /\ md_shift md = compute_only_shift S D L (d_inverse dc) us).
Proof.
  intros Hs. cbv zeta. unfold sample in Hs.
  destruct (well_formed_input t D sig ed) eqn:Hwf; cbn [negb] in Hs; [|discriminate].
  destruct (well_formed_facts t D sig ed Hwf) as [_ [_ [HE [HD HL]]]].
  split; [reflexivity|].
  destruct pt as [|p0 pt']; [discriminate|]. set (pt := p0 :: pt') in *.
  destruct (permatuhedral_sampling SC S t (mkRng pt 0)) as [sec|w] eqn:Hsec; [|discriminate].
  cbn [rbind] in Hs.
  destruct (sampling_anatomy SC S t d pt sec Hsec ltac:(lia)) as [_ [_ [_ [_ [_ [Hrng _]]]]]].
  destruct (decompose_for_tropical S (tg_loops (tb_graph t)) _ (set_stability st)) as [[e|dc]|w] eqn:Hdc;
    cbn [rbind] in Hs; [discriminate| |discriminate].
  rewrite Hrng in Hs.
  destruct (Nat.lt_ge_cases (2 * nedges t - 2) (length pt)) as [Hc|Hc];
    [|rewrite rng_next_panic in Hs by exact Hc; discriminate].
  rewrite (rng_next_ok pt _ d Hc) in Hs. cbn [rbind fst snd] in Hs.
  destruct (inverse_gamma_lr S igam_impl c_is_value _ _ 50 _) as [[lam|]|w] eqn:Hlam; cbn [rbind] in Hs;
    [|discriminate|discriminate].
  replace (Datatypes.S (2 * nedges t - 2)) with (2 * nedges t - 1) in Hs by lia.
  rewrite HD in Hs.
  set (reads := D * tg_loops (tb_graph t) + (D * tg_loops (tb_graph t)) mod 2) in *.
  destruct (Nat.le_gt_cases (2 * nedges t - 1 + reads) (length pt)) as [Hq|Hq].
  - destruct (q_vectors_layout S pt (2 * nedges t - 1) D (tg_loops (tb_graph t)) d Hq) as [qs [Hqs _]].
    fold reads in Hqs. rewrite Hqs in Hs. cbn [rbind fst snd] in Hs.
    exists sec, dc, lam, qs. inversion Hs; subst r.
    cbn [sr_reads sr_sector sr_u sr_v sr_momenta sr_utrop sr_vtrop sr_jacobian sr_meta].
    repeat (split; [first [reflexivity | assumption]|]).
    intros md Hmd. destruct (set_metadata st); [|discriminate].
    inversion Hmd; subst md. cbn [md_q md_lambda md_l md_decomp md_u md_shift]. repeat split; reflexivity.
  - exfalso. unfold sample_q_vectors in Hs.
    assert (Hp : 2 * ((D * tg_loops (tb_graph t) + (D * tg_loops (tb_graph t)) mod 2) / 2) = reads).
    { unfold reads. symmetry. apply Nat.div_exact; [lia|].
      rewrite Nat.add_mod by lia. rewrite Nat.mod_mod by lia.
      pose proof (Nat.mod_upper_bound (D * tg_loops (tb_graph t)) 2 ltac:(lia)) as Hm.
      destruct ((D * tg_loops (tb_graph t)) mod 2) as [|[|k]]; [reflexivity|reflexivity|lia]. }
    destruct (gaussians_short S pt (2 * nedges t - 1) ((D * tg_loops (tb_graph t) + (D * tg_loops (tb_graph t)) mod 2) / 2))
      as [w Hw]; [lia|lia|].
    rewrite Hw in Hs. discriminate.
Qed.

End Anatomy.
