(* Model/F64.v -- the binary64 instance of the scalar interface.
   + - * / sqrt abs and the comparisons are Coq's primitive IEEE-754 binary64
   operations (round to nearest even, the function Rust's f64 operators
   compute).  ln exp cos sin powf are NOT modelled: they are looked up in an
   oracle table recorded from the implementation (DESIGN.md 2.2); a miss
   yields NaN.  Definitions only. *)
From Coq Require Import ZArith List Floats Uint63.
From MT Require Import Model.Scalar.
Import ListNotations.
Open Scope Z_scope.

(* IEEE bit pattern of a float, as a Z (all NaNs are one canonical NaN). *)
Definition bits_of (f : float) : Z :=
  match Prim2SF f with
  | S754_zero s => if s then 2^63 else 0
  | S754_infinity s => (if s then 2^63 else 0) + 2047 * 2^52
  | S754_nan => 2047 * 2^52 + 2^51
  | S754_finite s m e =>
      let sg := if s then 2^63 else 0 in
      let m := Zpos m in
      if m <? 2^52 then sg + m
      else sg + (e + 1075) * 2^52 + (m - 2^52)
  end.

(* oracle entry: operation code, bits of the arguments, result *)
Record oentry := mkO { o_op : N; o_a : Z; o_b : Z; o_r : float }.
Definition oracle := list oentry.

Definition OP_LN : N := 1.   Definition OP_EXP : N := 2.
Definition OP_COS : N := 3.  Definition OP_SIN : N := 4.
Definition OP_POWF : N := 5. Definition OP_GAMMA : N := 6.
Definition OP_GAMMA_LR : N := 7. Definition OP_GAMMA_UR : N := 8.

Fixpoint olookup (tb : oracle) (op : N) (a b : Z) : option float :=
  match tb with
  | [] => None
  | e :: tb' =>
      if (N.eqb (o_op e) op && Z.eqb (o_a e) a && Z.eqb (o_b e) b)%bool
      then Some (o_r e) else olookup tb' op a b
  end.

Definition ocall1 (tb : oracle) (op : N) (x : float) : float :=
  match olookup tb op (bits_of x) 0 with Some r => r | None => nan end.
Definition ocall2 (tb : oracle) (op : N) (x y : float) : float :=
  match olookup tb op (bits_of x) (bits_of y) with Some r => r | None => nan end.

Definition f64_of_Z (z : Z) : float :=
  match z with
  | Z0 => PrimFloat.of_uint63 0%uint63
  | Zpos p => PrimFloat.of_uint63 (Uint63.of_Z (Zpos p))
  | Zneg p => PrimFloat.opp (PrimFloat.of_uint63 (Uint63.of_Z (Zpos p)))
  end.

Definition f64_pi : float := 0x1.921fb54442d18p+1%float.

Definition F64 (tb : oracle) : Scalar float float := {|
  s_add := PrimFloat.add;
  s_sub := PrimFloat.sub;
  s_mul := PrimFloat.mul;
  s_div := PrimFloat.div;
  s_neg := PrimFloat.opp;
  s_inv := fun x => PrimFloat.div 1%float x;
  s_abs := PrimFloat.abs;
  s_sqrt := PrimFloat.sqrt;
  s_ln := ocall1 tb OP_LN;
  s_exp := ocall1 tb OP_EXP;
  s_cos := ocall1 tb OP_COS;
  s_sin := ocall1 tb OP_SIN;
  s_powf := ocall2 tb OP_POWF;
  s_zero := 0%float;
  s_one := 1%float;
  s_pi := f64_pi;
  s_of_Z := f64_of_Z;
  s_of_c := fun x => x;
  s_to_c := fun x => x;
  s_eqb := PrimFloat.eqb;
  s_ltb := PrimFloat.ltb;
  s_leb := PrimFloat.leb
|}.
