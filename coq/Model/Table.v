(* Model/Table.v -- mirrors TropicalGraph::from_graph and
   TropicalSubgraphTable::{generate_from_tropical, get_num_variables,
   get_smallest_dod} of /repo/src/preprocessing.rs.  The constants of the table
   have type [C] with dictionary [SC : Scalar C C] (binary64 in the code) and an
   external Gamma function [gam].  Definitions only. *)
From Coq Require Import ZArith NArith List Bool.
From MT Require Import Model.Scalar Model.Graph.
Import ListNotations.

Section Table.
Context {C : Type} (SC : Scalar C C) (gam : C -> C).

Record graph := mkGraph { g_edges : list (edge C); g_ext : list N }.

Record tgraph := mkTG {
  tg_dod : C; tg_edges : list (edge C); tg_nmassive : nat; tg_ext : list N; tg_loops : nat }.

Record entry := mkEntry { t_loop : nat; t_span : bool; t_j : C; t_dod : C }.

Record table := mkTable {
  tb_entries : list entry; tb_dim : nat; tb_graph : tgraph; tb_factor : C }.

Definition ofnat (n : nat) : C := s_of_Z SC (Z.of_nat n).

(* Iterator::sum::<f64>() folds from -0.0 on this toolchain *)
Definition csum (l : list C) : C := fold_left (s_add SC) l (s_neg SC (s_zero SC)).
(* Iterator::product::<f64>() folds from 1.0 *)
Definition cprod (l : list C) : C := fold_left (s_mul SC) l (s_one SC).

Definition weight_sum (S : list (ie C)) : C := csum (map (fun p => e_weight (snd p)) S).

(* loop_number as f64 * dimension as f64 / 2.0   (left to right) *)
Definition half_LD (L D : nat) : C := s_div SC (s_mul SC (ofnat L) (ofnat D)) (ofnat 2).

Definition from_graph (g : graph) (D : nat) : res tgraph :=
  let E := length (g_edges g) in
  if Nat.ltb 64 E then Panic 1 (* assert!(len <= MAX_EDGES) *) else
  let all := combine (seq 0 E) (g_edges g) in
  let L := loop_number all in
  let dod := s_sub SC (weight_sum all) (half_LD L D) in
  Ok (mkTG dod (g_edges g) (length (filter (fun e => e_massive e) (g_edges g))) (g_ext g) L).

Definition entry_shape (tg : tgraph) (D : nat) (full : sid) (g : sid) : nat * bool * C :=
  let S := sub_edges (tg_edges tg) g in
  let span := is_mass_momentum_spanning (tg_nmassive tg) (tg_ext tg) S in
  let ws := weight_sum S in
  let L := loop_number S in
  let gd :=
    if is_empty g then s_one SC
    else if span then s_sub SC (s_sub SC ws (half_LD L D)) (tg_dod tg)
    else s_sub SC ws (half_LD L D) in
  (L, span, gd).

(* first pass: loop number, flag, generalised dod for ids 0 .. 2^E-1; stop at the
   first divergent proper non-empty subset *)
Fixpoint shapes (tg : tgraph) (D : nat) (full : sid) (ids : list sid) : option (list (nat * bool * C)) :=
  match ids with
  | [] => Some []
  | g :: ids' =>
      let '(L, span, gd) := entry_shape tg D full g in
      if s_leb SC gd (s_zero SC) && negb (is_empty g) && negb (N.eqb g full)
      then None
      else match shapes tg D full ids' with
           | Some r => Some ((L, span, gd) :: r)
           | None => None
           end
  end.

Definition ids_upto (E : nat) : list sid := map N.of_nat (seq 0 (2 ^ E)).

(* second pass: J, bottom-up.  js holds J for ids < length js. *)
Definition j_of (E : nat) (sh : list (nat * bool * C)) (js : list C) (g : sid) : C :=
  if is_empty g then s_one SC
  else csum (map (fun e =>
         let h := N.to_nat (pop_edge g e) in
         s_div SC (nth h js (s_zero SC)) (snd (nth h sh (0, false, s_zero SC))))
       (edges_of E g)).

Definition fill_j (E : nat) (sh : list (nat * bool * C)) : list C :=
  fold_left (fun js g => js ++ [j_of E sh js g]) (ids_upto E) [].

Inductive build_result :=
| BuildOk (t : table)
| BuildErr            (* Err(String): a divergent subgraph was found *)
| BuildPanic (why : nat).

Definition cached_factor (tg : tgraph) (D : nat) (i_tr : C) : C :=
  let gamma_omega := gam (tg_dod tg) in
  let denom := cprod (map (fun e => gam (e_weight e)) (tg_edges tg)) in
  let gamma_ratio := s_div SC gamma_omega denom in
  let pi_factor := s_powf SC (s_pi SC) (s_div SC (ofnat (D * tg_loops tg)) (ofnat 2)) in
  s_mul SC (s_mul SC i_tr gamma_ratio) pi_factor.

Definition generate_from_tropical (tg : tgraph) (D : nat) : build_result :=
  let E := length (tg_edges tg) in
  match full_id E with
  | Panic w => BuildPanic w
  | Ok full =>
    match shapes tg D full (ids_upto E) with
    | None => BuildErr
    | Some sh =>
        let js := fill_j E sh in
        let entries := map (fun p => mkEntry (fst (fst (fst p))) (snd (fst (fst p))) (snd p) (snd (fst p)))
                           (combine sh js) in
        let i_tr := last js (s_zero SC) in
        BuildOk (mkTable entries D tg (cached_factor tg D i_tr))
    end
  end.

Definition build_sampler (g : graph) (D : nat) : build_result :=
  match from_graph g D with
  | Panic w => BuildPanic w
  | Ok tg => generate_from_tropical tg D
  end.

(* 2E - 1 + DL + DL mod 2, on usize: E = 0 underflows *)
Definition get_num_variables (t : table) : res nat :=
  let E := length (tg_edges (tb_graph t)) in
  let L := loop_number (combine (seq 0 E) (tg_edges (tb_graph t))) in
  let G := L * tb_dim t in
  if Nat.eqb E 0 then Panic 2 else Ok (2 * E - 1 + G + Nat.modulo G 2).

End Table.

Arguments graph : clear implicits.
Arguments tgraph : clear implicits.
Arguments entry : clear implicits.
Arguments table : clear implicits.
Arguments build_result : clear implicits.
