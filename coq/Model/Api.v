(* Model/Api.v -- mirrors the public API of /repo/src/lib.rs: SampleGenerator as a state
   machine.  The state is the sampler (signature + table); every entry point takes &self.
   Definitions only. *)
From Coq Require Import ZArith NArith List Bool.
From MT Require Import Model.Scalar Model.Graph Model.Table Model.Matrix Model.Sampling.
Import ListNotations.

Section Api.
Context {C T : Type} (SC : Scalar C C) (S : Scalar C T).
Variable igam_impl : C -> C -> nat -> C -> res C.
Variable c_is_value : C -> bool.
Variable gam : C -> C.
Variable D : nat.                       (* the const generic D of SampleGenerator<D> *)

Record sampler := mkSampler { sg_signature : list (list Z); sg_table : table C }.

Definition build (g : graph C) (sig : list (list Z)) : build_result C + sampler :=
  match build_sampler SC gam g D with
  | BuildOk t => inr (mkSampler sig t)
  | r => inl r
  end.

Definition edge_data := list (option T * list T).
Definition outcome := res (sampling_error + sample_result T).

Definition get_dimension (s : sampler) : res nat := get_num_variables (sg_table s).
Definition get_dod (s : sampler) : C := tg_dod (tb_graph (sg_table s)).
Definition get_num_edges (s : sampler) : nat := length (tg_edges (tb_graph (sg_table s))).
Definition edge_weights (s : sampler) : list C := map (fun e => e_weight e) (tg_edges (tb_graph (sg_table s))).

Definition from_point (s : sampler) (x : list T) (ed : edge_data) (st : settings C) : outcome :=
  sample SC S igam_impl c_is_value (sg_table s) D x (sg_signature s) ed st.

(* generate_sample_from_rng: draws get_dimension() numbers (as f64, converted with from_f64)
   and calls generate_sample_from_x_space_point.  The RNG is the list of its future draws. *)
Definition from_rng (s : sampler) (draws : list C) (ed : edge_data) (st : settings C) : outcome * list C :=
  match ed with
  | [] => (Panic 61, draws)            (* edge_data[0] *)
  | _ =>
    match get_dimension s with
    | Panic w => (Panic w, draws)
    | Ok n =>
        if Nat.ltb (length draws) n then (Panic 60, [])   (* the RNG ran dry: not modelled further *)
        else (from_point s (map (s_of_c S) (firstn n draws)) ed st, skipn n draws)
    end
  end.

Inductive op :=
| OpPoint (x : list T) (ed : edge_data) (st : settings C)
| OpRng (draws : list C) (ed : edge_data) (st : settings C)
| OpDimension
| OpDod.

Inductive out :=
| OutSample (r : outcome)
| OutRng (r : outcome) (rest : list C)
| OutDim (n : res nat)
| OutDod (c : C).

(* what an operation returns: a function of the sampler and the operation alone *)
Definition answer (s : sampler) (o : op) : out :=
  match o with
  | OpPoint x ed st => OutSample (from_point s x ed st)
  | OpRng draws ed st => let (r, rest) := from_rng s draws ed st in OutRng r rest
  | OpDimension => OutDim (get_dimension s)
  | OpDod => OutDod (get_dod s)
  end.

(* one step of the state machine: &self, so the state is returned unchanged *)
Definition step (s : sampler) (o : op) : sampler * out := (s, answer s o).

Fixpoint run (s : sampler) (ops : list op) : sampler * list out :=
  match ops with
  | [] => (s, [])
  | o :: ops' => let (s1, a) := step s o in let (s2, rest) := run s1 ops' in (s2, a :: rest)
  end.

(* the numerical content of an outcome (everything but the optional metadata) *)
Definition numeric (r : outcome) : res (sampling_error + (list (list T) * T * T * T * T * T)) :=
  match r with
  | Panic w => Panic w
  | Ok (inl e) => Ok (inl e)
  | Ok (inr x) => Ok (inr (sr_momenta x, sr_utrop x, sr_vtrop x, sr_u x, sr_v x, sr_jacobian x))
  end.
Definition has_metadata (r : outcome) : option bool :=
  match r with
  | Ok (inr x) => Some (match sr_meta x with Some _ => true | None => false end)
  | _ => None
  end.

End Api.
Arguments sampler : clear implicits.

(* A process that holds SEVERAL samplers (each with its own const generic D) and calls them in any order, e.g. from
   several threads: a call names the sampler it is made on.  Nothing is shared between samplers: the crate has no
   process-wide state (no static, no thread-local; the check's static scan and its concurrent runs watch that). *)
Section Pool.
Context {C T : Type} (SC : Scalar C C) (S : Scalar C T).
Variable igam_impl : C -> C -> nat -> C -> res C.
Variable c_is_value : C -> bool.

Definition pool := list (nat * sampler C).        (* (D, sampler) *)

Definition answer_pool (p : pool) (k : nat) (o : op (C:=C) (T:=T)) : option (out (C:=C) (T:=T)) :=
  match nth_error p k with
  | Some (d, s) => Some (answer SC S igam_impl c_is_value d s o)
  | None => None
  end.

Fixpoint run_pool (p : pool) (calls : list (nat * op (C:=C) (T:=T))) : pool * list (option (out (C:=C) (T:=T))) :=
  match calls with
  | [] => (p, [])
  | (k, o) :: rest =>
      let a := answer_pool p k o in                 (* &self: the pool is handed on unchanged *)
      let (p', outs) := run_pool p rest in (p', a :: outs)
  end.
End Pool.
