(* Model/Render.v -- executable glue for the correspondence check: runs model stages
   at the binary64 instance and flattens the outcome to a [list Z] (floats as IEEE bit
   patterns).  No theorem depends on this file. *)
From Coq Require Import ZArith NArith List Bool Floats.
From MT Require Import Model.Scalar Model.F64 Model.Graph Model.Table Model.Vector Model.Matrix Model.Sampling.
Import ListNotations.
Open Scope Z_scope.

Definition OP_IGAM : N := 9.
Definition f_is_value (x : float) : bool := (PrimFloat.ltb (PrimFloat.abs x) infinity && PrimFloat.ltb 0 x)%bool.
Definition igam_oracle (tb : oracle) (a p : float) (n : nat) (eps : float) : res float :=
  Ok (ocall2 tb OP_IGAM a p).

Definition mk_graph (es : list (N * N * bool * float)) (ext : list N) : graph float :=
  mkGraph (map (fun q => mkEdge (fst (fst (fst q))) (snd (fst (fst q))) (snd q) (snd (fst q))) es) ext.
Definition b2z (b : bool) : Z := if b then 1 else 0.
Definition fl (l : list float) : list Z := map bits_of l.
Definition fll (l : list (list float)) : list Z := flat_map fl l.

Definition render_entry (e : entry float) : list Z :=
  [Z.of_nat (t_loop e); b2z (t_span e); bits_of (t_j e); bits_of (t_dod e)].
Definition render_build (tb : oracle) (es : list (N * N * bool * float)) (ext : list N) (D : nat) : list Z :=
  let SC := F64 tb in
  match build_sampler SC (ocall1 tb OP_GAMMA) (mk_graph es ext) D with
  | BuildPanic w => [2; Z.of_nat w]
  | BuildErr => [1]
  | BuildOk t =>
      [0; match get_num_variables t with Ok n => Z.of_nat n | Panic _ => -1 end;
       bits_of (tg_dod (tb_graph t)); Z.of_nat (tg_loops (tb_graph t)); Z.of_nat (tg_nmassive (tb_graph t));
       bits_of (tb_factor t); Z.of_nat (tb_dim t); Z.of_nat (length (tb_entries t))]
      ++ flat_map render_entry (tb_entries t)
  end.

Definition with_table (tb : oracle) es ext (D : nat) (k : table float -> list Z) : list Z :=
  match build_sampler (F64 tb) (ocall1 tb OP_GAMMA) (mk_graph es ext) D with
  | BuildOk t => k t
  | BuildErr => [-1]
  | BuildPanic w => [-2; Z.of_nat w]
  end.

Definition render_decomp (d : decomposition float) : list Z :=
  bits_of (d_determinant d) :: fl (d_inverse d) ++ fl (d_q_transposed d) ++ fl (d_q_transposed_inverse d).

Definition render_sector (s : sector_result float) : list Z :=
  map Z.of_nat (sec_order s) ++ fl (sec_x_pre s) ++ fl (sec_x s)
  ++ [bits_of (sec_utrop_pre s); bits_of (sec_vtrop_pre s); Z.of_nat (r_counter (sec_rng s))].

(* whole pipeline.  tag 0: Ok ; 1: Err (1 ZeroDet, 2 Unstable, 3 Gamma) ; 3: panic *)
Definition render_sample (tb : oracle) es ext (D : nat) (point : list float) (sig : list (list Z))
    (edata : list (option float * list float)) (stab : option float) : list Z :=
  with_table tb es ext D (fun t =>
    let SC := F64 tb in
    match sample SC SC (igam_oracle tb) f_is_value t D point sig edata (mkSettings stab false true) with
    | Panic w => [3; Z.of_nat w]
    | Ok (inl (ErrMatrix ZeroDet)) => [1; 1]
    | Ok (inl (ErrMatrix Unstable)) => [1; 2]
    | Ok (inl ErrGamma) => [1; 3]
    | Ok (inr r) =>
        [0] ++ render_sector (sr_sector r) ++ [Z.of_nat (sr_reads r)]
        ++ [bits_of (sr_u r); bits_of (sr_v r); bits_of (sr_jacobian r); bits_of (sr_utrop r); bits_of (sr_vtrop r)]
        ++ fll (sr_momenta r)
        ++ match sr_meta r with
           | None => []
           | Some m => fll (md_q m) ++ [bits_of (md_lambda m)] ++ fl (md_l m) ++ render_decomp (md_decomp m)
                       ++ fll (md_u m) ++ fll (md_shift m)
           end
    end).

(* stage A: sector sampling only *)
Definition render_sector_stage (tb : oracle) es ext (D : nat) (point : list float) : list Z :=
  with_table tb es ext D (fun t =>
    match permatuhedral_sampling (F64 tb) (F64 tb) t (mkRng point 0) with
    | Panic w => [3; Z.of_nat w]
    | Ok s => 0 :: render_sector s
    end).

(* sample_edge at a chosen (g, u) *)
Definition render_sample_edge (tb : oracle) es ext (D : nat) (queries : list (N * float)) : list Z :=
  with_table tb es ext D (fun t =>
    flat_map (fun q => match sample_edge (F64 tb) (F64 tb) t (snd q) (fst q) with
                       | Ok (e, g') => [Z.of_nat e; Z.of_N g']
                       | Panic _ => [-1; -1]
                       end) queries).

(* matrix routine on its own: tag 0 ok / 1 ZeroDet / 2 Unstable / 3 panic *)
Definition render_matrix (n : nat) (m : list float) (stab : option float) : list Z :=
  match decompose_for_tropical (F64 []) n m stab with
  | Panic w => [3; Z.of_nat w]
  | Ok (inl ZeroDet) => [1]
  | Ok (inl Unstable) => [2]
  | Ok (inr d) => 0 :: render_decomp d
  end.

(* stage B: L matrix and its decomposition from given Feynman parameters *)
Definition render_lmatrix (x : list float) (sig : list (list Z)) (L : nat) (stab : option float) : list Z :=
  let lm := compute_l_matrix (F64 []) x sig L in
  fl lm ++ render_matrix L lm stab.

(* stage C: Gaussian vectors from the tail of the point *)
Definition render_qvectors (tb : oracle) (point : list float) (start D L : nat) : list Z :=
  match sample_q_vectors (F64 tb) (mkRng point start) D L with
  | Panic w => [3; Z.of_nat w]
  | Ok (qs, r) => 0 :: Z.of_nat (r_counter r) :: fll qs
  end.

(* stage D: u vectors, V, loop momenta, shift from given x, lambda, q *)
Definition render_momenta (D : nat) (x : list float) (sig : list (list Z)) (L : nat)
    (edata : list (option float * list float)) (lambda : float) (qs : list (list float)) : list Z :=
  let S := F64 [] in
  let lm := compute_l_matrix S x sig L in
  match decompose_for_tropical S L lm None with
  | Ok (inr dc) =>
      let masses := map (fun md => match fst md with Some m => m | None => 0%float end) edata in
      let shifts := map snd edata in
      let us := compute_u_vectors S D x sig L shifts in
      let v := compute_v_polynomial S x us L (d_inverse dc) shifts masses in
      let ks := compute_loop_momenta S D v lambda L (d_q_transposed_inverse dc) qs (d_inverse dc) us in
      0 :: bits_of v :: fll us ++ fll ks ++ fll (compute_only_shift S D L (d_inverse dc) us)
  | _ => [1]
  end.

(* stage E: the jacobian from u, v and the table constants *)
Definition render_jacobian (tb : oracle) (D : nat) (dod factor u v : float) : list Z :=
  let S := F64 tb in
  let half := PrimFloat.div (f64_of_Z (Z.of_nat D)) (f64_of_Z 2) in
  [bits_of (PrimFloat.mul (PrimFloat.mul (s_powf S (PrimFloat.div 1 u) half) (s_powf S (PrimFloat.div 1 v) dod)) factor)].

(* C12: the Gamma quantile with all six external functions answered from the table.
   ops 17 / 18 mark arguments at which statrs' gamma_lr / gamma_ur panic. *)
From MT Require Import Model.Gamma.
Definition OP_GLR_PANIC : N := 17.
Definition OP_GUR_PANIC : N := 18.
Definition oracle_inc (tb : oracle) (op oppanic : N) (a x : float) : option float :=
  match olookup tb oppanic (bits_of a) (bits_of x) with
  | Some _ => None
  | None => match olookup tb op (bits_of a) (bits_of x) with Some r => Some r | None => Some nan end
  end.
Definition render_gamma (tb : oracle) (a p : float) (n : nat) (eps : float) : list Z :=
  match inverse_gamma_lr_impl_tagged (ocall1 tb OP_LN) (ocall1 tb OP_EXP) (ocall2 tb OP_POWF) (ocall1 tb OP_GAMMA)
          (oracle_inc tb OP_GAMMA_LR OP_GLR_PANIC) (oracle_inc tb OP_GAMMA_UR OP_GUR_PANIC) a p n eps with
  | Ok (x, tag) => [0%Z; bits_of x; Z.of_N tag; if is_value x then 1%Z else 0%Z]
  | Panic w => [3%Z; Z.of_nat w]
  end.
