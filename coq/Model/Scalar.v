(* Model/Scalar.v -- the scalar interface of the model.
   Mirrors the trait [MomTropFloat] of /repo/src/float.rs one to one.
   [C] is the type of the constants stored in the subgraph table (f64 in the
   code), [T] the user's scalar type.  Definitions only. *)
From Coq Require Import ZArith List Floats.
Import ListNotations.

Record Scalar (C T : Type) : Type := mkScalar {
  s_add : T -> T -> T;
  s_sub : T -> T -> T;
  s_mul : T -> T -> T;
  s_div : T -> T -> T;
  s_neg : T -> T;
  s_inv : T -> T;
  s_abs : T -> T;
  s_sqrt : T -> T;
  s_ln : T -> T;
  s_exp : T -> T;
  s_cos : T -> T;
  s_sin : T -> T;
  s_powf : T -> T -> T;
  s_zero : T;
  s_one : T;
  s_pi : T;
  s_of_Z : Z -> T;          (* from_isize *)
  s_of_c : C -> T;          (* from_f64   *)
  s_to_c : T -> C;          (* to_f64     *)
  s_eqb : T -> T -> bool;   (* ==  *)
  s_ltb : T -> T -> bool;   (* <   *)
  s_leb : T -> T -> bool    (* <=  *)
}.

Arguments s_add {C T} _ _ _.
Arguments s_sub {C T} _ _ _.
Arguments s_mul {C T} _ _ _.
Arguments s_div {C T} _ _ _.
Arguments s_neg {C T} _ _.
Arguments s_inv {C T} _ _.
Arguments s_abs {C T} _ _.
Arguments s_sqrt {C T} _ _.
Arguments s_ln {C T} _ _.
Arguments s_exp {C T} _ _.
Arguments s_cos {C T} _ _.
Arguments s_sin {C T} _ _.
Arguments s_powf {C T} _ _ _.
Arguments s_zero {C T} _.
Arguments s_one {C T} _.
Arguments s_pi {C T} _.
Arguments s_of_Z {C T} _ _.
Arguments s_of_c {C T} _ _.
Arguments s_to_c {C T} _ _.
Arguments s_eqb {C T} _ _ _.
Arguments s_ltb {C T} _ _ _.
Arguments s_leb {C T} _ _ _.

(* x >= y  is  y <= x ;  x > y  is  y < x  (PartialOrd on the Rust side). *)
Definition s_geb {C T} (S : Scalar C T) (x y : T) : bool := s_leb S y x.
Definition s_gtb {C T} (S : Scalar C T) (x y : T) : bool := s_ltb S y x.

(* Outcome of code that may panic. *)
Inductive res (A : Type) : Type :=
| Ok (a : A)
| Panic (why : nat).
Arguments Ok {A} _.
Arguments Panic {A} _.

Definition rbind {A B} (r : res A) (f : A -> res B) : res B :=
  match r with Ok a => f a | Panic w => Panic w end.
