(* Model/Graph.v -- mirrors TropicalSubGraphId and TropicalGraph of
   /repo/src/preprocessing.rs.  Subsets of edges are bit masks ([N]); a subset
   is handed to the graph routines as the ascending list of its
   (index, edge) pairs, as the code does with [contains_edges().collect_vec()].
   Definitions only. *)
From Coq Require Import ZArith NArith List Bool.
From MT Require Import Model.Scalar.
Import ListNotations.

(* ---------- TropicalSubGraphId ---------- *)
Definition sid := N.
Definition bit (e : nat) : N := N.shiftl 1 (N.of_nat e).
Definition has_edge (g : sid) (e : nat) : bool := N.testbit g (N.of_nat e).
Definition pop_edge (g : sid) (e : nat) : sid := N.lxor g (bit e).
Definition is_empty (g : sid) : bool := N.eqb g 0.
Definition edges_of (E : nat) (g : sid) : list nat := filter (has_edge g) (seq 0 E).
Definition has_one_edge (E : nat) (g : sid) : bool := Nat.eqb (length (edges_of E g)) 1.
(* get_full_subgraph_id: (1 << E) - 1 on a 64-bit word; E >= 64 overflows *)
Definition full_id (E : nat) : res sid :=
  if Nat.ltb E 64 then Ok (N.ones (N.of_nat E)) else Panic 64.
Definition from_edge_list (l : list nat) : sid := fold_left (fun g e => N.lor g (bit e)) l 0%N.

(* ---------- TropicalGraph ---------- *)
Section Graph.
Context {C : Type}.

Record edge := mkEdge { e_left : N; e_right : N; e_weight : C; e_massive : bool }.
Definition ie := (nat * edge)%type.

Definition contains_vertex (ed : edge) (v : N) : bool := N.eqb (e_left ed) v || N.eqb (e_right ed) v.
(* are_neighbours(e1,e2): e1 contains an endpoint of e2 *)
Definition neighbours (e1 e2 : edge) : bool :=
  contains_vertex e1 (e_left e2) || contains_vertex e1 (e_right e2).
Definition nb (a b : ie) : bool := neighbours (snd a) (snd b).

Definition sub_edges (edges : list edge) (g : sid) : list ie :=
  filter (fun p => has_edge g (fst p)) (combine (seq 0 (length edges)) edges).

(* connected components: grow the current component by whole neighbour layers
   until it stops growing, then restart from the first unvisited edge *)
Fixpoint grow (fuel : nat) (cur rest : list ie) : list ie * list ie :=
  match fuel with
  | O => (cur, rest)
  | S k =>
      let (inn, out) := partition (fun f => existsb (fun e => nb e f) cur) rest in
      match inn with
      | [] => (cur, rest)
      | _ => grow k (cur ++ inn) out
      end
  end.

Fixpoint comps (fuel : nat) (todo : list ie) : list (list ie) :=
  match fuel, todo with
  | O, _ => []
  | _, [] => []
  | S k, e :: rest =>
      let (c, rest') := grow (length rest) [e] rest in
      c :: comps k rest'
  end.

Definition components (S : list ie) : list (list ie) := comps (length S) S.

Definition Nmem (v : N) (l : list N) : bool := existsb (N.eqb v) l.
Fixpoint Nnodup (l : list N) : list N :=
  match l with
  | [] => []
  | v :: l' => if Nmem v l' then Nnodup l' else v :: Nnodup l'
  end.
Definition verts (c : list ie) : list N :=
  Nnodup (flat_map (fun p => [e_left (snd p); e_right (snd p)]) c).

(* Euler's formula on one component: 1 + edges - vertices *)
Definition loops_of_component (c : list ie) : nat := 1 + length c - length (verts c).
Definition loop_number (S : list ie) : nat :=
  fold_left Nat.add (map loops_of_component (components S)) 0.

Definition count_massive (S : list ie) : nat := length (filter (fun p => e_massive (snd p)) S).

Definition is_mass_momentum_spanning (nmassive : nat) (ext : list N) (S : list ie) : bool :=
  Nat.eqb (count_massive S) nmassive &&
  existsb (fun c => forallb (fun v => existsb (fun p => contains_vertex (snd p) v) c) ext) (components S).

End Graph.
Arguments edge : clear implicits.
Arguments ie : clear implicits.
