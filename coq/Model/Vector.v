(* Model/Vector.v -- mirrors /repo/src/vector.rs.  A Vector<T,D> is a list of
   length D.  Definitions only. *)
From Coq Require Import ZArith List.
From MT Require Import Model.Scalar.
Import ListNotations.

Section Vec.
Context {C T : Type} (S : Scalar C T).

Fixpoint map2 (f : T -> T -> T) (u v : list T) : list T :=
  match u, v with
  | a :: u', b :: v' => f a b :: map2 f u' v'
  | _, _ => []
  end.

(* &u + &v : array::from_fn(|i| self[i].ref_add(&rhs[i])) *)
Definition vadd (u v : list T) : list T := map2 (s_add S) u v.
(* &u - &v *)
Definition vsub (u v : list T) : list T := map2 (s_sub S) u v.
(* &u * c  and  &u * &c : elem.ref_mul(rhs) *)
Definition vscale (u : list T) (c : T) : list T := map (fun x => s_mul S x c) u.
(* u += v : self[i] += &rhs[i] *)
Definition vadd_assign (u v : list T) : list T := map2 (s_add S) u v.
(* new / new_from_num *)
Definition vzero (D : nat) : list T := repeat (s_zero S) D.
(* dot: fold from index 0 starting at zero, acc + left*right *)
Definition dot (u v : list T) : T :=
  fold_left (fun acc ab => s_add S acc (s_mul S (fst ab) (snd ab))) (combine u v) (s_zero S).
(* squared: fold from index 0 starting at zero, acc + x*x *)
Definition squared (u : list T) : T :=
  fold_left (fun acc x => s_add S acc (s_mul S x x)) u (s_zero S).

End Vec.
