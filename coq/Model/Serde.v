(* Model/Serde.v -- the serde data model of the derived Serialize/Deserialize impls of
   SampleGenerator, TropicalSubgraphTable, TropicalGraph, TropicalEdge and
   TropicalSubgraphTableEntry: structs with named fields in declaration order.
   Definitions only. *)
From Coq Require Import ZArith NArith List Bool String.
From MT Require Import Model.Scalar Model.Graph Model.Table Model.Api.
Import ListNotations.
Open Scope string_scope.

Section Serde.
Context {C : Type}.

Inductive sv :=
| SvU (n : N)                      (* u8 / u64 / usize *)
| SvI (z : Z)                      (* isize *)
| SvB (b : bool)
| SvF (c : C)                      (* f64, carried exactly *)
| SvSeq (l : list sv)
| SvStruct (fields : list (string * sv)).

Definition ser_edge (ie : nat * edge C) : sv :=
  let e := snd ie in
  SvStruct [("edge_id", SvU (N.of_nat (fst ie))); ("left", SvU (e_left e)); ("right", SvU (e_right e));
            ("weight", SvF (e_weight e)); ("is_massive", SvB (e_massive e))].

Definition ser_tgraph (tg : tgraph C) : sv :=
  SvStruct [("dod", SvF (tg_dod tg));
            ("topology", SvSeq (map ser_edge (combine (seq 0 (List.length (tg_edges tg))) (tg_edges tg))));
            ("num_massive_edges", SvU (N.of_nat (tg_nmassive tg)));
            ("external_vertices", SvSeq (map SvU (tg_ext tg)));
            ("num_loops", SvU (N.of_nat (tg_loops tg)))].

Definition ser_entry (e : entry C) : sv :=
  SvStruct [("loop_number", SvU (N.of_nat (t_loop e))); ("mass_momentum_spanning", SvB (t_span e));
            ("j_function", SvF (t_j e)); ("generalized_dod", SvF (t_dod e))].

Definition ser_table (t : table C) : sv :=
  SvStruct [("table", SvSeq (map ser_entry (tb_entries t))); ("dimension", SvU (N.of_nat (tb_dim t)));
            ("tropical_graph", ser_tgraph (tb_graph t)); ("cached_factor", SvF (tb_factor t))].

Definition ser_sampler (s : sampler C) : sv :=
  SvStruct [("loop_signature", SvSeq (map (fun row => SvSeq (map SvI row)) (sg_signature s)));
            ("table", ser_table (sg_table s))].

(* ---------- deserialisation ---------- *)
Fixpoint sequence {A} (l : list (option A)) : option (list A) :=
  match l with
  | [] => Some []
  | Some a :: l' => match sequence l' with Some r => Some (a :: r) | None => None end
  | None :: _ => None
  end.

Definition de_u (v : sv) : option N := match v with SvU n => Some n | _ => None end.
Definition de_i (v : sv) : option Z := match v with SvI z => Some z | _ => None end.
Definition de_b (v : sv) : option bool := match v with SvB b => Some b | _ => None end.
Definition de_f (v : sv) : option C := match v with SvF c => Some c | _ => None end.
Definition de_seq {A} (f : sv -> option A) (v : sv) : option (list A) :=
  match v with SvSeq l => sequence (map f l) | _ => None end.

(* the edge_id field is read back but, as in the code, carries no information beyond the position *)
Definition de_edge (v : sv) : option (edge C) :=
  match v with
  | SvStruct [("edge_id", SvU _); ("left", SvU l); ("right", SvU r); ("weight", SvF w); ("is_massive", SvB m)] =>
      Some (mkEdge l r w m)
  | _ => None
  end.

Definition de_tgraph (v : sv) : option (tgraph C) :=
  match v with
  | SvStruct [("dod", SvF d); ("topology", topo); ("num_massive_edges", SvU nm); ("external_vertices", ext); ("num_loops", SvU nl)] =>
      match de_seq de_edge topo, de_seq de_u ext with
      | Some es, Some xs => Some (mkTG d es (N.to_nat nm) xs (N.to_nat nl))
      | _, _ => None
      end
  | _ => None
  end.

Definition de_entry (v : sv) : option (entry C) :=
  match v with
  | SvStruct [("loop_number", SvU l); ("mass_momentum_spanning", SvB b); ("j_function", SvF j); ("generalized_dod", SvF d)] =>
      Some (mkEntry (N.to_nat l) b j d)
  | _ => None
  end.

Definition de_table (v : sv) : option (table C) :=
  match v with
  | SvStruct [("table", tab); ("dimension", SvU dm); ("tropical_graph", tg); ("cached_factor", SvF f)] =>
      match de_seq de_entry tab, de_tgraph tg with
      | Some es, Some g => Some (mkTable es (N.to_nat dm) g f)
      | _, _ => None
      end
  | _ => None
  end.

Definition de_sampler (v : sv) : option (sampler C) :=
  match v with
  | SvStruct [("loop_signature", sig); ("table", t)] =>
      match de_seq (de_seq de_i) sig, de_table t with
      | Some sg, Some tb => Some (mkSampler sg tb)
      | _, _ => None
      end
  | _ => None
  end.

End Serde.
Arguments sv : clear implicits.
