(* Model/Sampling.v -- mirrors /repo/src/mimic_rng.rs, TropicalSubgraphTable::sample_edge
   and /repo/src/sampling.rs.  [SC] is the dictionary of the table constants (f64 in the
   code: D/2, dod, ... are computed there and converted with from_f64), [S] the
   dictionary of the user's scalar type.  The Gamma quantile is a parameter
   ([igam_impl], modelled in Model/Gamma.v).  Definitions only. *)
From Coq Require Import ZArith NArith List Bool.
From MT Require Import Model.Scalar Model.Graph Model.Table Model.Vector Model.Matrix.
Import ListNotations.

Section Sampling.
Context {C T : Type} (SC : Scalar C C) (S : Scalar C T).
Variable igam_impl : C -> C -> nat -> C -> res C.   (* gamma::inverse_gamma_lr_impl *)
Variable c_is_value : C -> bool.   (* res.is_finite() && res > 0.0 : the wrapper's test in gamma.rs *)

Notation zero := (s_zero S).
Notation one := (s_one S).
Notation ofc := (s_of_c S).

(* ---------- MimicRng ---------- *)
Record rng := mkRng { r_cache : list T; r_counter : nat }.
Definition rng_next (r : rng) : res (T * rng) :=
  match nth_error (r_cache r) (r_counter r) with
  | Some x => Ok (x, mkRng (r_cache r) (Datatypes.S (r_counter r)))
  | None => Panic 10   (* index out of bounds *)
  end.

(* ---------- table access ---------- *)
Definition dentry : entry C := mkEntry 0 false (s_zero SC) (s_zero SC).
Definition ent (t : table C) (g : sid) : entry C := nth (N.to_nat g) (tb_entries t) dentry.
Definition nedges (t : table C) : nat := length (tg_edges (tb_graph t)).

(* ---------- sample_edge ---------- *)
Definition edge_prob (t : table C) (g : sid) (e : nat) : T :=
  let h := pop_edge g e in
  s_div S (s_div S (ofc (t_j (ent t h))) (ofc (t_j (ent t g)))) (ofc (t_dod (ent t h))).

Fixpoint scan_edges (t : table C) (u : T) (g : sid) (cum : T) (es : list nat) : option (nat * sid) :=
  match es with
  | [] => None                       (* the loop ends without a crossing *)
  | e :: es' =>
      let cum' := s_add S cum (edge_prob t g e) in
      if s_geb S cum' u then Some (e, pop_edge g e) else scan_edges t u g cum' es'
  end.

(* after the loop: a uniform number in [0,1) above the rounded total belongs to the
   last edge (fix: commit in /repo); anything else is the documented panic *)
Definition sample_edge (t : table C) (u : T) (g : sid) : res (nat * sid) :=
  let es := edges_of (nedges t) g in
  match scan_edges t u g zero es with
  | Some r => Ok r
  | None =>
      match rev es with
      | e :: _ => if s_ltb S u one then Ok (e, pop_edge g e) else Panic 20
      | [] => Panic 20
      end
  end.

(* ---------- permatuhedral_sampling ---------- *)
Record sector_state := mkSt {
  st_g : sid; st_kappa : T; st_x : list T; st_utrop : T; st_vtrop : T; st_rng : rng;
  st_order : list nat (* removal order, most recent first *) }.

Definition remove_one (t : table C) (st : sector_state) : res sector_state :=
  let g := st_g st in
  rbind (if has_one_edge (nedges t) g
         then match edges_of (nedges t) g with
              | e :: _ => Ok (e, pop_edge g e, st_rng st)
              | [] => Panic 21
              end
         else rbind (rng_next (st_rng st)) (fun ur =>
              rbind (sample_edge t (fst ur) g) (fun eg => Ok (fst eg, snd eg, snd ur))))
    (fun egr =>
       let '(e, g', r) := egr in
       let x := upd (st_x st) e (st_kappa st) in
       let xe := nth e x zero in
       let v := if t_span (ent t g) && negb (t_span (ent t g')) then xe else st_vtrop st in
       let u := if Nat.ltb (t_loop (ent t g')) (t_loop (ent t g)) then s_mul S (st_utrop st) xe else st_utrop st in
       if is_empty g' then Ok (mkSt g' (st_kappa st) x u v r (e :: st_order st))
       else rbind (rng_next r) (fun xr =>
         let xi := fst xr in
         let kappa := s_mul S (st_kappa st) (s_powf S xi (s_inv S (ofc (t_dod (ent t g'))))) in
         Ok (mkSt g' kappa x u v (snd xr) (e :: st_order st)))).

Fixpoint sector_loop (fuel : nat) (t : table C) (st : sector_state) : res sector_state :=
  if is_empty (st_g st) then Ok st else
  match fuel with
  | O => Panic 22
  | Datatypes.S k => rbind (remove_one t st) (sector_loop k t)
  end.

Definition halfD (t : table C) : C := s_div SC (ofnat SC (tb_dim t)) (ofnat SC 2).

Record sector_result := mkSec {
  sec_x_pre : list T; sec_x : list T; sec_utrop_pre : T; sec_vtrop_pre : T; sec_scaling : T;
  sec_order : list nat; sec_rng : rng }.

Definition permatuhedral_sampling (t : table C) (r : rng) : res sector_result :=
  let E := nedges t in
  rbind (full_id E) (fun full =>
  rbind (sector_loop (Datatypes.S E) t (mkSt full one (repeat zero E) one one r [])) (fun st =>
    let u_trop := st_utrop st in
    let v_trop := st_vtrop st in
    let xi_trop := s_mul S u_trop v_trop in
    let dod := tg_dod (tb_graph t) in
    let target := s_mul S (s_powf S u_trop (ofc (s_neg SC (halfD t))))
                          (s_powf S (s_div S u_trop xi_trop) (ofc dod)) in
    let L := t_loop (last (tb_entries t) dentry) in
    let scaling := s_powf S target
                     (s_inv S (ofc (s_add SC (s_mul SC (halfD t) (ofnat SC L)) dod))) in
    Ok (mkSec (st_x st) (map (fun x => s_mul S x scaling) (st_x st)) u_trop v_trop scaling
              (rev (st_order st)) (st_rng st)))).

(* ---------- compute_l_matrix ---------- *)
Definition sig_at (sig : list (list Z)) (e l : nat) : Z := nth l (nth e sig []) 0%Z.

Definition compute_l_matrix (x : list T) (sig : list (list Z)) (L : nat) : list T :=
  tabulate L (fun i j =>
    let a := Nat.min i j in let b := Nat.max i j in
    fold_left (fun acc e => s_add S acc (s_mul S (s_of_Z S (sig_at sig e a * sig_at sig e b)) (nth e x zero)))
              (seq 0 (length sig)) zero).

(* ---------- Gamma draw ---------- *)
Definition inverse_gamma_lr (a p : T) (n : nat) (eps : T) : res (option T) :=
  rbind (igam_impl (s_to_c S a) (s_to_c S p) n (s_to_c S eps))
        (fun r => Ok (if c_is_value r then Some (ofc r) else None)).

(* ---------- Gaussian vectors ---------- *)
Definition box_muller (x1 x2 : T) : T * T :=
  let r := s_sqrt S (s_mul S (s_neg S (s_of_Z S 2)) (s_ln S x1)) in
  let theta := s_mul S (s_mul S (s_of_Z S 2) (s_pi S)) x2 in
  (s_mul S (s_cos S theta) r, s_mul S (s_sin S theta) r).

Fixpoint gaussians (pairs : nat) (r : rng) : res (list T * rng) :=
  match pairs with
  | O => Ok ([], r)
  | Datatypes.S k =>
      rbind (rng_next r) (fun a => rbind (rng_next (snd a)) (fun b =>
      rbind (gaussians k (snd b)) (fun rest =>
        let bm := box_muller (fst a) (fst b) in
        Ok (fst bm :: snd bm :: fst rest, snd rest))))
  end.

Fixpoint chunks (D n : nat) (l : list T) : list (list T) :=
  match n with
  | O => []
  | Datatypes.S k => firstn D l :: chunks D k (skipn D l)
  end.

Definition sample_q_vectors (r : rng) (D L : nat) : res (list (list T) * rng) :=
  let nv := D * L in
  rbind (gaussians ((nv + Nat.modulo nv 2) / 2) r) (fun gr => Ok (chunks D L (fst gr), snd gr)).

(* ---------- u vectors, V, momenta ---------- *)
Definition compute_u_vectors (D : nat) (x : list T) (sig : list (list Z)) (L : nat) (shifts : list (list T)) : list (list T) :=
  map (fun l =>
    fold_left (fun acc e =>
        vadd S acc (vscale S (nth e shifts []) (s_mul S (s_of_Z S (sig_at sig e l)) (nth e x zero))))
      (seq 0 (length sig)) (vzero S D))
    (seq 0 L).

Definition compute_v_polynomial (x : list T) (uvec : list (list T)) (L : nat) (linv : list T)
                                (shifts : list (list T)) (masses : list T) : T :=
  let r0 := fold_left (fun acc xms =>
               let '(xe, m, p) := xms in
               s_add S acc (s_mul S (s_add S (s_mul S m m) (squared S p)) xe))
             (combine (combine x masses) shifts) zero in
  let r1 := fold_left (fun res l => s_sub S res (s_mul S (squared S (nth l uvec [])) (mget S L linv l l)))
                      (seq 0 L) r0 in
  fold_left (fun res i =>
     fold_left (fun res' j =>
        s_sub S res' (s_mul S (s_mul S (s_of_Z S 2) (dot S (nth i uvec []) (nth j uvec []))) (mget S L linv i j)))
       (seq (i + 1) (L - (i + 1))) res)
    (seq 0 L) r1.

Definition compute_loop_momenta (D : nat) (v lambda : T) (L : nat) (qtinv : list T) (qs : list (list T))
                                (linv : list T) (us : list (list T)) : list (list T) :=
  let pref := s_sqrt S (s_div S (s_div S v lambda) (s_of_Z S 2)) in
  map (fun l =>
    fold_left (fun acc lqu =>
        let '(l', (q, u)) := lqu in
        vsub S (vadd S acc (vscale S q (s_mul S pref (mget S L qtinv l l')))) (vscale S u (mget S L linv l l')))
      (combine (seq 0 (length qs)) (combine qs us)) (vzero S D))
    (seq 0 L).

Definition compute_only_shift (D : nat) (L : nat) (linv : list T) (us : list (list T)) : list (list T) :=
  map (fun l =>
    fold_left (fun acc lu => vadd S acc (vscale S (snd lu) (mget S L linv l (fst lu))))
      (combine (seq 0 (length us)) us) (vzero S D))
    (seq 0 L).

(* ---------- sample ---------- *)
Record settings := mkSettings { set_stability : option C; set_debug : bool; set_metadata : bool }.

Record metadata := mkMeta {
  md_q : list (list T); md_lambda : T; md_l : list T; md_decomp : decomposition T;
  md_u : list (list T); md_shift : list (list T) }.

Record sample_result := mkRes {
  sr_momenta : list (list T); sr_utrop : T; sr_vtrop : T; sr_u : T; sr_v : T; sr_jacobian : T;
  sr_meta : option metadata;
  (* ghost fields: what the code logs / what the theorems talk about *)
  sr_sector : sector_result; sr_reads : nat }.

Inductive sampling_error := ErrMatrix (e : matrix_error) | ErrGamma.

Definition well_formed_input (t : table C) (D : nat) (sig : list (list Z))
           (edge_data : list (option T * list T)) : bool :=
  let E := nedges t in
  Nat.eqb (length sig) E && Nat.eqb (length edge_data) E && Nat.ltb 0 E &&
  Nat.eqb (tb_dim t) D &&
  forallb (fun row => Nat.eqb (length row) (tg_loops (tb_graph t))) sig &&
  forallb (fun md => Nat.eqb (length (snd md)) D) edge_data &&
  Nat.ltb 0 (tg_loops (tb_graph t)).

Definition sample (t : table C) (D : nat) (point : list T) (sig : list (list Z))
           (edge_data : list (option T * list T)) (st : settings)
  : res (sampling_error + sample_result) :=
  if negb (well_formed_input t D sig edge_data) then Panic 30 (* outside the modelled domain *) else
  match point with [] => Panic 11 (* mimic_rng.zero() on an empty point *) | _ =>
  let L := tg_loops (tb_graph t) in
  rbind (permatuhedral_sampling t (mkRng point 0)) (fun sec =>
  let x := sec_x sec in
  let lmat := compute_l_matrix x sig L in
  rbind (decompose_for_tropical S L lmat (set_stability st)) (fun dec =>
  match dec with
  | inl e => Ok (inl (ErrMatrix e))
  | inr dc =>
    rbind (rng_next (sec_rng sec)) (fun pr =>
    rbind (inverse_gamma_lr (ofc (tg_dod (tb_graph t))) (fst pr) 50 (ofc (ofnat SC 5))) (fun lam =>
    match lam with
    | None => Ok (inl ErrGamma)
    | Some lambda =>
      let masses := map (fun md => match fst md with Some m => m | None => zero end) edge_data in
      let shifts := map snd edge_data in
      rbind (sample_q_vectors (snd pr) (tb_dim t) L) (fun qr =>
      let qs := fst qr in
      let us := compute_u_vectors D x sig L shifts in
      let v := compute_v_polynomial x us L (d_inverse dc) shifts masses in
      let ks := compute_loop_momenta D v lambda L (d_q_transposed_inverse dc) qs (d_inverse dc) us in
      let u := d_determinant dc in
      let jac := s_mul S (s_mul S (s_powf S (s_div S one u) (ofc (halfD t)))
                                  (s_powf S (s_div S one v) (ofc (tg_dod (tb_graph t)))))
                         (ofc (tb_factor t)) in
      let md := if set_metadata st
                then Some (mkMeta qs lambda lmat dc us (compute_only_shift D L (d_inverse dc) us))
                else None in
      Ok (inr (mkRes ks one one u v jac md sec (r_counter (snd qr)))))
    end))
  end))
  end.

End Sampling.
Arguments rng : clear implicits.
Arguments sector_result : clear implicits.
Arguments sample_result : clear implicits.
Arguments metadata : clear implicits.
Arguments settings : clear implicits.
