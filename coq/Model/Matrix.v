(* Model/Matrix.v -- mirrors /repo/src/matrix.rs.  A SquareMatrix<T> is a row-major
   list of dim*dim scalars.  Operation order follows the source (accumulation from
   index 0 starting at zero, in-place updates).  Definitions only. *)
From Coq Require Import ZArith List Bool.
From MT Require Import Model.Scalar.
Import ListNotations.

Section Matrix.
Context {C T : Type} (S : Scalar C T).

Definition mget (n : nat) (m : list T) (i j : nat) : T := nth (i * n + j) m (s_zero S).

Fixpoint upd (l : list T) (k : nat) (v : T) : list T :=
  match l, k with
  | [], _ => []
  | _ :: l', O => v :: l'
  | x :: l', Datatypes.S k' => x :: upd l' k' v
  end.
Definition mset (n : nat) (m : list T) (i j : nat) (v : T) : list T := upd m (i * n + j) v.

Definition tabulate (n : nat) (f : nat -> nat -> T) : list T :=
  flat_map (fun i => map (fun j => f i j) (seq 0 n)) (seq 0 n).

Definition mzeros (n : nat) : list T := repeat (s_zero S) (n * n).
Definition midentity (n : nat) : list T :=
  tabulate n (fun i j => if Nat.eqb i j then s_one S else s_zero S).

(* &a * &b : result[(r,c)] += a[(r,k)] * b[(k,c)], k ascending, from zero *)
Definition mmul (n : nat) (a b : list T) : list T :=
  tabulate n (fun r c =>
    fold_left (fun acc k => s_add S acc (s_mul S (mget n a r k) (mget n b k c))) (seq 0 n) (s_zero S)).
Definition madd (n : nat) (a b : list T) : list T := tabulate n (fun r c => s_add S (mget n a r c) (mget n b r c)).
Definition msub (n : nat) (a b : list T) : list T := tabulate n (fun r c => s_sub S (mget n a r c) (mget n b r c)).
Definition mtranspose (n : nat) (a : list T) : list T := tabulate n (fun r c => mget n a c r).

(* L_{2,1} norm: sum over columns of the Euclidean norm of the column *)
Definition l21_norm (n : nat) (a : list T) : T :=
  fold_left (fun res j =>
    s_add S res (s_sqrt S (fold_left (fun vn i => s_add S vn (s_mul S (mget n a i j) (mget n a i j)))
                                     (seq 0 n) (s_zero S))))
    (seq 0 n) (s_zero S).

(* The Cholesky loop.  The code fills q in place, column by column: iteration i reads only
   columns < i (never written again) and writes column i.  The model keeps the list of finished
   columns; the arithmetic of each entry is operation for operation that of the code
   (sequential subtraction with k ascending, then one division by the diagonal entry). *)
Definition chol_column (n : nat) (m : list T) (cols : list (list T)) (i : nat) : list T :=
  let q k r := nth r (nth k cols []) (s_zero S) in        (* q[(r,k)] for a finished column k *)
  let dsq := fold_left (fun d k => s_sub S d (s_mul S (q k i) (q k i))) (seq 0 i) (mget n m i i) in
  let dg := s_sqrt S dsq in
  map (fun j =>
         if Nat.ltb j i then s_zero S
         else if Nat.eqb j i then dg
         else s_div S (fold_left (fun en k => s_sub S en (s_mul S (q k i) (q k j))) (seq 0 i) (mget n m i j)) dg)
      (seq 0 n).

Definition chol_columns (n : nat) (m : list T) : list (list T) :=
  fold_left (fun cols i => cols ++ [chol_column n m cols i]) (seq 0 n) [].

(* q as the row-major matrix the rest of the routine indexes *)
Definition cholesky (n : nat) (m : list T) : list T :=
  tabulate n (fun r c => nth r (nth c (chol_columns n m) []) (s_zero S)).

Inductive matrix_error := ZeroDet | Unstable.

Record decomposition := mkDecomp {
  d_determinant : T; d_inverse : list T; d_q_transposed : list T; d_q_transposed_inverse : list T }.

(* powers N^1 .. N^max(1,n-1): push(last * first) *)
Fixpoint n_powers (n : nat) (nm : list T) (k : nat) (last : list T) : list (list T) :=
  match k with
  | O => []
  | Datatypes.S k' => let nxt := mmul n last nm in nxt :: n_powers n nm k' nxt
  end.

(* the pieces of decompose_for_tropical after the Cholesky loop *)
Definition det_q_of (n : nat) (q : list T) : T :=
  fold_left (fun acc i => s_mul S acc (mget n q i i)) (seq 0 n) (s_one S).
Definition inv_diag_of (n : nat) (q : list T) : list T := map (fun i => s_inv S (mget n q i i)) (seq 0 n).
(* Q = D (1 + N): N[row][col] = inv_diag[row] * q[row][col] below the diagonal *)
Definition n_matrix_of (n : nat) (q idg : list T) : list T :=
  tabulate n (fun r c => if Nat.ltb c r then s_mul S (nth r idg (s_zero S)) (mget n q r c) else s_zero S).
(* -N + N^2 - N^3 ... : fold over (index, power), minus for even index *)
Definition n_sum_of (n : nat) (nm : list T) : list T :=
  let powers := nm :: n_powers n nm (n - 2) nm in
  fold_left (fun acc im => if Nat.even (fst im) then msub n acc (snd im) else madd n acc (snd im))
            (combine (seq 0 (length powers)) powers) (mzeros n).
(* (1 + n_sum) D^-1 : add one on the diagonal, then scale column c by inv_diag[c] *)
Definition inverse_q_of (n : nat) (n_sum idg : list T) : list T :=
  tabulate n (fun r c =>
    s_mul S (if Nat.eqb r c then s_add S (mget n n_sum r c) (s_one S) else mget n n_sum r c) (nth c idg (s_zero S))).
Definition stability_error (n : nat) (inverse m : list T) : T :=
  l21_norm n (msub n (mmul n inverse m) (midentity n)).

(* the four fields of an Ok result *)
Definition decomp_fields (n : nat) (m : list T) : decomposition :=
  let q := cholesky n m in
  let det_q := det_q_of n q in
  let idg := inv_diag_of n q in
  let inverse_q := inverse_q_of n (n_sum_of n (n_matrix_of n q idg)) idg in
  let q_t_inv := mtranspose n inverse_q in
  mkDecomp (s_mul S det_q det_q) (mmul n q_t_inv inverse_q) (mtranspose n q) q_t_inv.

Definition decompose_for_tropical (n : nat) (m : list T) (stability : option C)
  : res (matrix_error + decomposition) :=
  if Nat.eqb n 0 then Panic 40 (* self.data[0] on an empty matrix *) else
  let det_q := det_q_of n (cholesky n m) in
  (* det_q == 0 || determinant == 0  (the square can underflow; fix: commit in /repo) *)
  if s_eqb S det_q (s_zero S) || s_eqb S (s_mul S det_q det_q) (s_zero S) then Ok (inl ZeroDet) else
  let result := decomp_fields n m in
  match stability with
  | None => Ok (inr result)
  | Some tol =>
      (* !(error <= tolerance): a NaN error is rejected (fix: commit in /repo) *)
      if negb (s_leb S (stability_error n (d_inverse result) m) (s_of_c S tol))
      then Ok (inl Unstable) else Ok (inr result)
  end.

End Matrix.
Arguments decomposition : clear implicits.
